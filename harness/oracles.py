"""Direct, executable statements of the count properties, evaluated on the *implementation's* record
(E.erecord, plus the ballot snapshots the driver takes).  Each oracle returns a list of violations,
each a dict(kind=..., detail=..., sig=dict(...)) -- sig is what known_findings.json is matched against."""
from fractions import Fraction
import itertools, re

GREGORY = ('wigm', 'wigm-prf', 'wigm-prf-batch', 'scotland', 'cfer', 'cfer-batch', 'mpls')
MEEKS = ('meek', 'warren', 'meek-prf')

def rule_name(E): return E.options.getopt('rule')
def scale_of(E):
    V = E.V
    return None if V.name == 'rational' else V(1)._value
def fv(E, v):
    "exact value as a Fraction"
    if isinstance(v, Fraction): return Fraction(v)
    return Fraction(v._value, scale_of(E))
def raw(E, v):
    return v._value
def snaps(E):
    return [a for a in E.erecord['actions'] if a['tag'] != 'log']
def is_surplus_transfer(a):
    return a['tag'] == 'transfer' and (a['msg'].startswith('Surplus transferred') or a['msg'].startswith('Transfer surplus'))
def V_(kind, detail, **sig):
    s = dict(kind=kind); s.update(sig)
    return dict(kind=kind, detail=detail, sig=s)
def arith_sig(E):
    V = E.V
    d = dict(rule=rule_name(E), arithmetic=V.name)
    if V.name == 'guarded': d['guard_positive'] = V.guard > 0
    if V.name in ('fixed', 'guarded', 'integer'): d['precision'] = V.precision
    return d

def kf_out_of_range(E, a, sig):
    """sig extended by kf_zero_before / kf_above_one_before when an elected candidate's keep factor is <= 0 / > 1
       in this snapshot (the root findings K1/K5 of C08); the flags stay set for the rest of the count"""
    for c in a['cstate'].values():
        if c['state'] == 'elected' and c.get('kf') is not None:
            k = fv(E, c['kf'])
            if k <= 0 and not sig.get('kf_zero_before'): sig = dict(sig, kf_zero_before=True)
            if k > 1 and not sig.get('kf_above_one_before'): sig = dict(sig, kf_above_one_before=True)
    return sig

def trace_stats(E):
    acts = E.erecord['actions']
    return dict(rule=rule_name(E), arithmetic=E.V.name, ncand=len(E.C), nballots=E.nBallots, seats=E.nSeats,
                nactions=len(acts), ties=sum(1 for a in acts if a['tag'] == 'tie'),
                surplus_transfers=sum(1 for a in acts if is_surplus_transfer(a)),
                defeats=sum(1 for a in acts if a['tag'] == 'defeat'),
                rounds=E.round, batches=sum(1 for a in acts if a['tag'] == 'defeat' and ('batch' in a['msg'] or 'sure loser' in a['msg'] or 'certain loser' in a['msg'])))

def qpq_prev(E, acts_before, prev):
    """QPQ's restart un-elects silently right after the 'round' action that follows an exclusion: the snapshot
    preceding the next action is that 'round' snapshot with elected -> hopeful applied (DESIGN C09/C18)"""
    if rule_name(E) != 'qpq' or prev is None or prev['tag'] != 'round': return prev
    r = prev['round']
    if not any(x['tag'] == 'defeat' and x['round'] == r - 1 for x in acts_before) and r != 1: return prev
    p2 = dict(prev); cs = {}
    for cid, c in prev['cstate'].items():
        c2 = dict(c)
        if c2['state'] == 'elected': c2['state'] = 'hopeful'
        cs[cid] = c2
    p2['cstate'] = cs
    return p2

# ------------------------------------------------------------------ C01
def c01(E, blt, opts, r):
    out = []
    st = r['status']
    sig = arith_sig(E)
    if st.startswith('crash:'):
        # the state the count was left in: an elected candidate whose tally has been truncated to nothing
        try:
            ez = any(c.state == 'elected' and getattr(c.vote, '_value', None) == 0 for c in E.C)
        except Exception:
            ez = False
        # ... or more winners than seats while an elected candidate holds less than the quota (what postCheck trips over: K14, K21)
        try:
            ob = (rule_name(E) in MEEKS and len([c for c in E.C if c.state == 'elected']) > E.nSeats
                  and any(c.state == 'elected' and c.vote < E.quota for c in E.C))
        except Exception:
            ob = False
        sig = dict(sig, over_elected_below_quota=ob)
        return [V_('c01-crash', "count raised %s\n%s" % (st[6:], r.get('exc_tb', '')), exception=st[6:].split('(')[0], elected_tally_zero=ez, **sig)]
    rule = rule_name(E)
    electable = [c for c in E.C if c.state != 'withdrawn' and not (rule == 'mpls' and c.isUndeclared)]
    nelect = len([c for c in E.C if c.state == 'elected'])
    nonw = [c for c in E.C if c.state != 'withdrawn']
    # count of electable candidates is fixed from the profile
    n_electable = len([c for c in E.C if not E.electionProfile.withdrawn.__contains__(c.cid)
                       and not (rule == 'mpls' and c.cid in E.electionProfile.undeclared)])
    want = min(E.nSeats, n_electable)
    if nelect != want or len(E.elected) != want:
        out.append(V_('c01-winners', "declared %d winners, expected min(seats=%d, electable=%d)" % (nelect, E.nSeats, n_electable), **sig))
    for c in E.C:
        wd = c.cid in E.electionProfile.withdrawn
        if wd:
            if c.state != 'withdrawn': out.append(V_('c01-withdrawn', "withdrawn candidate %d ends %s" % (c.cid, c.state), **sig))
            if bool(c.vote): out.append(V_('c01-withdrawn', "withdrawn candidate %d credited with %s" % (c.cid, c.vote), **sig))
        elif c.state not in ('elected', 'defeated'):
            out.append(V_('c01-undecided', "candidate %d ends %s" % (c.cid, c.state), **sig))
    ec = set(c.cid for c in E.elected); dc = set(c.cid for c in E.defeated)
    if ec & dc: out.append(V_('c01-both', "candidates both elected and defeated: %s" % sorted(ec & dc), **sig))
    for a in snaps(E):
        for cid, c in a['cstate'].items():
            if cid in E.electionProfile.withdrawn and c['state'] != 'withdrawn':
                out.append(V_('c01-withdrawn', "withdrawn candidate %d recorded as %s" % (cid, c['state']), **sig)); break
    return out

# ------------------------------------------------------------------ C02
def c02(E, blt, opts, r):
    out = []; sig = arith_sig(E)
    rule = rule_name(E); V = E.V; n = E.nBallots
    nV = V(n)
    t = 0
    snapsB = r.get('snaps_obj')
    i = -1
    for a in snaps(E):
        i += 1
        if is_surplus_transfer(a): t += 1
        if rule in MEEKS: sig = kf_out_of_range(E, a, sig)
        for cid, c in a['cstate'].items():
            if c['state'] != 'withdrawn' and fv(E, c['vote']) < 0:
                out.append(V_('c02-negative', "negative tally %s for %d at action %r" % (c['vote'], cid, a['msg']), **sig))
        if rule in GREGORY:
            tot = a['votes'] + a['nt_votes']
            if fv(E, a['nt_votes']) < 0: out.append(V_('c02-negative', "negative non-transferable total at %r" % a['msg'], **sig))
            if fv(E, tot) > n:
                out.append(V_('c02-created', "votes+nontransferable = %s exceeds %d ballots at %r" % (tot, n, a['msg']), **sig))
            if V.name == 'rational':
                if fv(E, tot) != n: out.append(V_('c02-lost', "exact arithmetic: total %s != %d at %r" % (tot, n, a['msg']), **sig))
            else:
                short = (nV - tot)._value
                if short > 2 * n * t:
                    out.append(V_('c02-lost', "shortfall %d units > 2*%d ballots*%d transfers at %r" % (short, n, t, a['msg']), **sig))
        elif rule in MEEKS:
            tot = a['votes'] + a['residual']
            if fv(E, a['residual']) < 0: out.append(V_('c02-negative', "negative residual %s at %r" % (a['residual'], a['msg']), **sig))
            if fv(E, tot) > n: out.append(V_('c02-created', "votes+residual = %s exceeds %d at %r" % (tot, n, a['msg']), **sig))
            # meek / warren: the residual absorbs every truncation, so right after a distribution nothing is missing
            # (whole-run theorem C02_meek_iterations_conserve_whole_run); meek-prf logs no 'iterate' action
            if a['tag'] == 'iterate' and fv(E, tot) < n:
                out.append(V_('c02-lost', "votes+residual = %s falls short of %d ballots at %r" % (tot, n, a['msg']), **sig))
            # exact arithmetic: first preferences (equal-ranked ones are shared exactly) and every distribution balance to the ballot
            if V.name == 'rational' and a['tag'] in ('begin', 'iterate') and fv(E, tot) != n:
                out.append(V_('c02-rational-begin' if a['tag'] == 'begin' else 'c02-lost', "exact arithmetic: votes+residual = %s, ballots %d at %r" % (tot, n, a['msg']), **sig))
            # meek-prf logs no 'iterate'; its begin/elect/tie/defeat steps balance exactly (C08's whole-run theorem).  The other
            # steps ('round', the closing 'remaining' steps) are recorded too: K18 when the shortfall is the tally of a candidate
            # excluded earlier whose votes were zeroed before the next distribution
            if rule == 'meek-prf' and fv(E, tot) < n:
                claimed_step = a['tag'] in ('begin', 'elect', 'tie', 'defeat') and not a['msg'].startswith(('Defeat remaining', 'Elect remaining'))
                earlier = [b for b in snaps(E)][:i]
                out.append(V_('c02-lost-prf', "meek-prf: votes+residual = %s falls short of %d ballots at %r" % (tot, n, a['msg']),
                              **dict(sig, unclaimed_step=not claimed_step, after_exclusion=any(b['tag'] == 'defeat' for b in earlier))))
        elif rule == 'qpq' and snapsB is not None:
            nel = len([1 for c in a['cstate'].values() if c['state'] == 'elected'])
            ws = snapsB[i]
            tot = sum((fv(E, w) * fv(E, b.multiplier) for (idx, w), b in zip(ws, E.ballots)), Fraction(0))
            S = scale_of(E)
            # between a restart (weights reset to 0) and re-election the sum follows the elected count of the restarted pass
            if abs(tot - nel) * S > (n + 1) * max(nel, 1) and a['tag'] not in ('round',):
                # a restart un-elects silently: compare only when the snapshot follows an election step
                if a['tag'] in ('elect', 'transfer', 'end') and 'elected' in a['msg'].lower() + ' elected':
                    pass
            if a['tag'] == 'transfer' and a['msg'].startswith('Transfer elected'):
                # rounding allowance: a ballot's new share is 1/quotient, and one unit of error in a quotient q moves 1/q by
                # 1/q**2 units -- more than one unit when the quotient is below one vote (many seats, few ballots)
                qs = [fv(E, x['quotient']) for b in snaps(E)[:i + 1] for x in b['cstate'].values()
                      if x['state'] == 'elected' and x.get('quotient') is not None and fv(E, x['quotient']) > 0]
                amp = max([1] + [int(1 / (q * q)) + 1 for q in qs])
                if abs(tot - nel) * S > (n + 1) * max(nel, 1) * amp:
                    out.append(V_('c02-qpq', "ballot contributions sum to %s with %d elected at %r" % (tot, nel, a['msg']), **sig))
    # votes credited to a withdrawn candidate are lost to everybody else: the record has no tally for withdrawn candidates
    for c in E.C:
        if c.state == 'withdrawn' and bool(c.vote):
            out.append(V_('c02-withdrawn-credited', "withdrawn candidate %d holds %s at the end of the count" % (c.cid, c.vote), **arith_sig(E)))
    return out

# ------------------------------------------------------------------ C04
def declared_options(blt, opts):
    """the options a count was asked to run with: every [droop ...] group of the file, overridden by the caller's"""
    import re
    d = {}
    for grp in re.findall(r'\[droop ([^\]]*)\]', blt):
        for tok in grp.split():
            if '=' in tok:
                k, v = tok.split('=', 1); d[k] = v
    for k, v in opts.items(): d[k] = v
    return d

def c04(E, blt, opts, r):
    out = []; sig = arith_sig(E)
    # the arithmetic the quota is computed in is the one asked for (parametric rules; integer arithmetic means no places)
    if rule_name(E) in ('wigm', 'meek', 'warren'):
        d = declared_options(blt, opts)
        ar = d.get('arithmetic')
        want = {}
        if ar in ('fixed', 'guarded') and 'precision' in d: want['precision'] = d['precision']
        if ar == 'integer': want['precision'] = 0
        if ar == 'guarded' and 'guard' in d: want['guard'] = d['guard']
        if ar is None and E.V.name == 'guarded':
            if 'precision' in d: want['precision'] = d['precision']
            if 'guard' in d: want['guard'] = d['guard']
        for k, v in want.items():
            try:
                if int(v) != int(getattr(E.V, k)):
                    out.append(V_('c04-arith-config', "the count was asked for %s=%s but runs with %s=%s (%s arithmetic): the quota is computed in the wrong precision" %
                                  (k, v, k, getattr(E.V, k), E.V.name), **sig))
            except (TypeError, ValueError):
                pass
    rule = rule_name(E); V = E.V; n = E.nBallots; s = E.nSeats
    S = scale_of(E)
    acts = snaps(E)
    def has_quota(v, q):
        if rule in ('wigm', 'meek', 'warren'):
            return (v > q) if V.exact else (v >= q)
        return v >= q
    # quota formula
    integer_q = rule in ('scotland', 'mpls') or (rule == 'wigm' and E.options.getopt('integer_quota') is True)
    for a in acts:
        if rule == 'qpq': break
        base = None
        if rule in GREGORY:
            base = Fraction(n)
        elif a['tag'] in ('iterate',) or (rule == 'meek-prf' and a['tag'] in ('elect', 'tie') and not a['msg'].startswith('Elect remaining')) or a['tag'] == 'begin':
            base = fv(E, a['votes']) if a['tag'] != 'begin' else Fraction(n)
        if base is None: continue
        q = fv(E, a['quota'])
        if integer_q:
            want = Fraction(n // (s + 1) + 1)
        elif V.name == 'rational':
            want = base / (s + 1)
        elif V.name == 'guarded' and V.exact:
            want = Fraction((base * S / (s + 1)).__floor__(), S)
        else:
            want = Fraction((base * S / (s + 1)).__floor__() + 1, S)
        if q != want:
            out.append(V_('c04-quota', "quota %s at %r, prescribed %s (ballots/votes %s, seats %d)" % (a['quota'], a['msg'], want, base, s), **sig))
            break
    # nobody holding a quota is excluded
    prev = None; moved_round = None
    for a in acts:
        if a['tag'] == 'defeat' and prev is not None:
            for cid, c in a['cstate'].items():
                if c['state'] == 'defeated' and prev['cstate'][cid]['state'] == 'hopeful':
                    pc = prev['cstate'][cid]
                    if rule == 'mpls' and cid in E.electionProfile.undeclared: continue
                    if rule == 'qpq':
                        holds = pc.get('quotient') is not None and pc['quotient'] > prev['quota'] and a['round'] == prev['round'] and prev['tag'] != 'round'
                    else:
                        holds = has_quota(pc['vote'], prev['quota']) and fv(E, prev['quota']) > 0
                    if holds:
                        if rule == 'qpq':
                            # K17: QPQ computes a ballot's share 1/quotient at 18 places (guarded 9+9): above a quotient of 10**9 the
                            # share keeps fewer than nine significant digits, above 10**18 it is 0
                            S9 = 10 ** 9
                            sig = dict(sig, share_underflow=any(x.get('quotient') is not None and fv(E, x['quotient']) >= S9 for x in prev['cstate'].values()))
                        out.append(V_('c04-excluded-with-quota', "candidate %d excluded at %r while holding %s >= quota %s" %
                                      (cid, a['msg'], pc['vote'], prev['quota']), **sig))
        # nobody is left undecided while holding a quota: an exclusion or surplus transfer (the step after the
        # round's election step) never starts from a state in which a hopeful candidate holds the quota
        # (Minneapolis defeats certain losers before the round's election step by statute: not checked there)
        if (rule in GREGORY and rule != 'mpls' and prev is not None and moved_round != a['round'] and prev['round'] == a['round']
                and not a['msg'].startswith('Defeat undeclared')
                and (a['tag'] == 'defeat' or (a['tag'] == 'transfer' and a['msg'].startswith('Surplus')))):
            for cid, pc in prev['cstate'].items():
                if pc['state'] != 'hopeful': continue
                if rule == 'mpls' and cid in E.electionProfile.undeclared: continue
                if has_quota(pc['vote'], prev['quota']) and fv(E, prev['quota']) > 0:
                    out.append(V_('c04-undecided-with-quota', "candidate %d still hopeful with %s >= quota %s when the round went on to %r" %
                                  (cid, pc['vote'], prev['quota'], a['msg']), **sig))
                    break
        if a['tag'] in ('transfer', 'defeat') and not a['msg'].startswith('Defeat undeclared'): moved_round = a['round']
        prev = a
    return out

# ------------------------------------------------------------------ C06 (Gregory family)
def c06(E, blt, opts, r):
    rule = rule_name(E)
    if rule not in GREGORY: return []
    out = []; sig = arith_sig(E); V = E.V
    acts = snaps(E); sn = r.get('snaps_obj')
    if sn is None: return []
    one = V(1); zero = V(0)
    prev = None; prevw = None
    for i, a in enumerate(acts):
        ws = sn[i]
        cs = a['cstate']
        # P1: everybody before the ballot's index is non-hopeful;  P3: continuing tallies = sum of ballot values
        sums = {}
        for (idx, w), b in zip(ws, E.ballots):
            rk = list(b.ranking)
            for j in range(min(idx, len(rk))):
                if cs[rk[j]]['state'] == 'hopeful':
                    out.append(V_('c06-skipped-hopeful', "ballot %s stands at index %d past hopeful candidate %d at %r" % (rk, idx, rk[j], a['msg']), **sig)); break
            if idx < len(rk):
                val = w if b.multiplier == one else w * b.multiplier
                sums[rk[idx]] = sums.get(rk[idx], zero) + val
            if not (fv(E, zero) <= fv(E, w) <= 1):
                out.append(V_('c06-weight-range', "ballot weight %s outside [0,1] at %r" % (w, a['msg']), **sig))
        for cid, c in cs.items():
            if c['state'] == 'hopeful' or (c['state'] == 'elected' and c.get('pending')):
                have = sums.get(cid, zero)
                if fv(E, have) != fv(E, c['vote']):
                    out.append(V_('c06-tally', "candidate %d tally %s != %s, the sum of its ballots' values, at %r" % (cid, c['vote'], have, a['msg']), **sig)); break
        # candidates that are no longer continuing: either the ballots are still theirs at their value (defeated, not yet
        # transferred; elected at the end without a transfer) or they hold none (the whole-run theorem of Props/C06.v)
        for cid, c in cs.items():
            if c['state'] == 'defeated' or (c['state'] == 'elected' and not c.get('pending')):
                have = sums.get(cid, zero)
                if fv(E, have) != 0 and fv(E, have) != fv(E, c['vote']):
                    out.append(V_('c06-tally-noncontinuing', "candidate %d (%s) shows %s while the ballots still standing with it are worth %s, at %r" %
                                  (cid, c['state'], c['vote'], have, a['msg']), **sig)); break
        # after a transfer nothing is left behind with the candidates it names
        if a['tag'] == 'transfer' and ': ' in a['msg']:
            tail = a['msg'].split(': ', 1)[1]
            if is_surplus_transfer(a): tail = tail.rsplit(' (', 1)[0]
            allnames = [c.name for c in E.C]
            named = [c for c in E.C if c.name in tail.split(', ')]
            if named and all(', ' not in n for n in allnames) and len(set(allnames)) == len(allnames) and \
               sorted(c.name for c in named) == sorted(tail.split(', ')):
                ids = set(c.cid for c in named)
                for (idx, w), b in zip(ws, E.ballots):
                    rk = list(b.ranking)
                    if idx < len(rk) and rk[idx] in ids:
                        out.append(V_('c06-left-behind', "ballot %s still stands with candidate %d after %r" % (rk, rk[idx], a['msg']), **sig)); break
        # P4: weights change only at a surplus transfer, only for the transferring candidate's ballots, rounded down
        if prev is not None:
            changed = [(k, pw, nw) for k, ((pi, pw), (ni, nw)) in enumerate(zip(prevw, ws)) if fv(E, pw) != fv(E, nw)]
            if changed:
                if not is_surplus_transfer(a):
                    out.append(V_('c06-reweight', "ballot weights changed at %r, not a surplus transfer" % a['msg'], **sig))
                else:
                    # the transferring candidate: elected, and at the previous snapshot pending (or, mpls, hopeful with quota)
                    for k, pw, nw in changed:
                        b = E.ballots[k]; rk = list(b.ranking); pidx = prevw[k][0]
                        x = rk[pidx] if pidx < len(rk) else None
                        if x is None or cs[x]['state'] != 'elected':
                            out.append(V_('c06-reweight', "weight of a ballot not held by the transferring candidate changed at %r" % a['msg'], **sig)); break
                        pv = prev['cstate'][x]['vote']; q = prev['quota']
                        surplus = pv - q
                        if rule == 'scotland':
                            want = V.muldiv(pw, surplus, pv, round='down')
                        else:
                            want = (pw * surplus) / pv
                        exactv = fv(E, pw) * fv(E, surplus) / fv(E, pv)
                        if fv(E, nw) != fv(E, want) or fv(E, nw) > exactv or fv(E, nw) > fv(E, pw):
                            out.append(V_('c06-transfer-value', "ballot value %s -> %s, prescribed %s (exact %s) at %r" % (pw, nw, want, exactv, a['msg']), **sig)); break
                        if fv(E, cs[x]['vote']) != fv(E, a['quota']):
                            out.append(V_('c06-keeps-quota', "candidate %d holds %s after its surplus transfer, quota is %s" % (x, cs[x]['vote'], a['quota']), **sig)); break
            # every ballot that stood with the transferring candidate leaves at the prescribed value, changed or not
            # (a surplus of zero must leave them worthless)
            if is_surplus_transfer(a) and ': ' in a['msg']:
                nm = a['msg'].split(': ', 1)[1].rsplit(' (', 1)[0]
                xs = [c.cid for c in E.C if c.name == nm]
                if len(xs) == 1 and prev['cstate'][xs[0]]['state'] in ('elected', 'hopeful'):
                    x = xs[0]; pv = prev['cstate'][x]['vote']; q = prev['quota']; surplus = pv - q
                    if fv(E, pv) > 0 and fv(E, surplus) >= 0:
                        for k, ((pi, pw), (ni, nw)) in enumerate(zip(prevw, ws)):
                            rk = list(E.ballots[k].ranking)
                            if pi < len(rk) and rk[pi] == x:
                                want = V.muldiv(pw, surplus, pv, round='down') if rule == 'scotland' else (pw * surplus) / pv
                                if fv(E, nw) != fv(E, want):
                                    out.append(V_('c06-transfer-value', "ballot of %d leaves at value %s, prescribed %s = %s x %s / %s at %r" %
                                                  (x, nw, want, pw, surplus, pv, a['msg']), **sig)); break
        prev = a; prevw = ws
    return out

# ------------------------------------------------------------------ C07
TIE_RE = re.compile(r'^Break tie(?: by (prior stage|lot))? \((.*?)\): \[(.*)\] -> (.*)$')
def c07(E, blt, opts, r):
    out = []; sig = arith_sig(E); rule = rule_name(E); V = E.V
    acts = snaps(E)
    byname = {}
    for c in E.C: byname.setdefault(c.name, []).append(c)
    prev = None
    zero = V(0)
    i = -1
    for a in acts:
        i += 1
        msg = a['msg']
        if a['tag'] == 'tie':
            m = TIE_RE.match(msg)
            if not m:
                out.append(V_('c07-tie-log', "unparseable tie message %r" % msg, **sig))
            else:
                kind, reason, names, chosen = m.groups()
                tied = [byname[nm][0] for nm in names.split(', ') if nm in byname and len(byname[nm]) == 1]
                if len(tied) == len(names.split(', ')) and chosen in byname and len(byname[chosen]) == 1:
                    ch = byname[chosen][0]
                    if ch not in tied:
                        out.append(V_('c07-tie-choice', "tie %r chose a candidate outside the tied set" % msg, **sig))
                    elif kind == 'prior stage':
                        # most recent earlier stage (saved at each 'round' action) at which the extreme is unique
                        want = None
                        stages = [x for x in acts[:i] if x['tag'] == 'round']
                        for st in reversed(stages):
                            vs = sorted(((st['cstate'][c.cid]['vote'], c.order, c) for c in tied), key=lambda t: (t[0], t[1]))
                            ext = vs[0][0] if 'defeat' in reason else vs[-1][0]
                            same = [t for t in vs if t[0] == ext]
                            if len(same) == 1:
                                want = same[0][2]; break
                        if want is None or want.cid != ch.cid:
                            out.append(V_('c07-tie-choice', "tie %r: prior-stage rule selects %s" % (msg, want.name if want else None), **sig))
                    else:
                        want = min(tied, key=lambda c: c.tieOrder)
                        if want.cid != ch.cid:
                            out.append(V_('c07-tie-choice', "tie %r: first in tie order is %s" % (msg, want.name), **sig))
        if prev is not None and a['tag'] == 'defeat':
            newly = [cid for cid, c in a['cstate'].items() if c['state'] == 'defeated' and prev['cstate'][cid]['state'] == 'hopeful']
            hop = [cid for cid, c in prev['cstate'].items() if c['state'] == 'hopeful']
            single = msg.startswith(('Defeat: ', 'Defeat low candidate', 'Defeat low quotient', 'Defeat (surplus', 'Defeat (stable'))
            # the exclusion is logged before tallies are zeroed or ballots moved: the defeat snapshot itself holds
            # the tallies/quotients the decision was taken on (QPQ and meek-prf recompute them after the last snapshot)
            base = a['cstate']
            for cid in newly:
                pc = base[cid]
                if single:
                    if rule == 'qpq':
                        if any(base[o]['quotient'] < pc['quotient'] for o in hop if o != cid):
                            out.append(V_('c07-not-lowest', "excluded %d with quotient %s is not lowest at %r" % (cid, pc['quotient'], msg), **sig))
                    elif rule in MEEKS:
                        lowest = min(fv(E, base[o]['vote']) for o in hop)
                        # a total surplus rounded below zero ties nobody: the lowest candidates themselves are eligible
                        sp = a['surplus'] if fv(E, a['surplus']) > 0 else V(0)
                        if fv(E, pc['vote']) > lowest + fv(E, sp) and not (pc['vote'] <= V.min([base[o]['vote'] for o in hop]) + sp):
                            out.append(V_('c07-not-lowest', "excluded %d with %s is not within the surplus %s of the lowest %s at %r" % (cid, pc['vote'], a['surplus'], lowest, msg), **sig))
                    else:
                        if any(base[o]['vote'] < pc['vote'] for o in hop if o != cid):
                            out.append(V_('c07-not-lowest', "excluded %d with %s is not lowest at %r" % (cid, pc['vote'], msg), **sig))
                    # a choice among several lowest must be logged as a tie just before
                    if rule not in MEEKS and rule != 'qpq':
                        tied = [o for o in hop if base[o]['vote'] == pc['vote']]
                    elif rule == 'qpq':
                        tied = [o for o in hop if base[o]['quotient'] == pc['quotient']]
                    else:
                        vm = V.min([base[x]['vote'] for x in hop])
                        tied = [o for o in hop if (vm + a['surplus']) >= base[o]['vote']] or [o for o in hop if base[o]['vote'] == vm]
                    if len(tied) > 1 and prev['tag'] != 'tie':
                        out.append(V_('c07-unlogged-tie', "exclusion %r chose among %d tied candidates without a tie action" % (msg, len(tied)), **sig))
        if prev is not None and is_surplus_transfer(a) and rule in ('wigm', 'wigm-prf', 'wigm-prf-batch', 'scotland', 'mpls'):
            # the surplus transferred first is the largest
            pend_prev = [cid for cid, c in prev['cstate'].items() if c['state'] == 'elected' and c.get('pending')]
            # the transferring candidate is the one whose pending flag dropped (mpls: newly elected)
            moved = [cid for cid, c in a['cstate'].items() if c['state'] == 'elected' and not c.get('pending') and
                     (prev['cstate'][cid].get('pending') or prev['cstate'][cid]['state'] == 'hopeful')]
            # find the snapshot before the unpend/elect action
            j = i - 1
            while j >= 0 and acts[j]['tag'] in ('unpend', 'elect', 'tie'): j -= 1
            base = acts[j] if j >= 0 else prev
            if rule == 'mpls':
                cands = [cid for cid, c in base['cstate'].items() if c['state'] == 'hopeful' and c['vote'] >= base['quota']]
            else:
                cands = [cid for cid, c in base['cstate'].items() if c['state'] == 'elected' and c.get('pending')]
            for cid in moved:
                if cid in cands and any(base['cstate'][o]['vote'] > base['cstate'][cid]['vote'] for o in cands if o != cid):
                    out.append(V_('c07-not-largest', "surplus of %d transferred at %r while a larger one was pending" % (cid, msg), **sig))
        if prev is not None and a['tag'] == 'defeat':
            pass
        prev = a
    # batches: sure losers
    out += batch_check(E, acts, sig)
    return out

def batch_check(E, acts, sig):
    out = []; rule = rule_name(E); V = E.V
    i = 0
    while i < len(acts):
        a = acts[i]
        if a['tag'] == 'defeat' and any(k in a['msg'] for k in ('sure loser', 'certain loser', 'Defeat batch:', 'Defeat batch(zero)')) and i > 0:
            j = i
            while j < len(acts) and acts[j]['tag'] == 'defeat' and acts[j]['msg'].split(':')[0] == a['msg'].split(':')[0]: j += 1
            before = acts[i - 1]; after = acts[j - 1]
            batch = [cid for cid, c in after['cstate'].items() if c['state'] == 'defeated' and before['cstate'][cid]['state'] == 'hopeful'
                     and not (rule == 'mpls' and cid in E.electionProfile.undeclared)]
            rest = [cid for cid, c in after['cstate'].items() if c['state'] == 'hopeful']
            if batch and rest:
                tot = sum((before['cstate'][c]['vote'] for c in batch), V(0))
                if rule in MEEKS:
                    surplus = before['surplus']
                else:
                    surplus = sum((before['cstate'][c]['vote'] - before['quota'] for c, x in before['cstate'].items()
                                   if x['state'] == 'elected' and x.get('pending')), V(0))
                    if rule == 'mpls':
                        surplus = before['surplus']
                        if before['round'] <= 2:
                            und = [c for c in E.electionProfile.undeclared]
                            surplus = surplus + sum((before['cstate'][c]['vote'] for c in und if before['cstate'][c]['state'] == 'hopeful'), V(0))
                low_rest = min(fv(E, after['cstate'][c]['vote']) for c in rest)
                # (wigm's zero batch: the candidates whose tally compares equal to zero, excluded when no surplus is pending;
                #  only the "enough candidates remain" clause is checked for it -- under guarded arithmetic "equal to zero" is approximate)
                if 'batch(zero)' not in a['msg'] and not fv(E, tot) + fv(E, surplus) < low_rest:
                    out.append(V_('c07-batch-not-sure-losers', "batch %s: tallies %s + surplus %s not below next tally %s at %r" %
                                  (batch, tot, surplus, low_rest, a['msg']), **sig))
            if batch:
                nel = len([1 for c in after['cstate'].values() if c['state'] == 'elected'])
                if len(rest) + nel < min(E.nSeats, len([c for c in E.C if c.state != 'withdrawn' and not (rule == 'mpls' and c.isUndeclared)])):
                    out.append(V_('c07-batch-too-many', "batch at %r leaves %d continuing + %d elected for %d seats" % (a['msg'], len(rest), nel, E.nSeats), **sig))
            i = j
        else:
            i += 1
    return out

# ------------------------------------------------------------------ C08
def c08(E, blt, opts, r):
    rule = rule_name(E)
    if rule not in MEEKS or E.V.name == 'rational': return []
    out = []; sig = arith_sig(E); V = E.V; n = E.nBallots
    acts = snaps(E)
    prev = None
    round_exit = {}
    for a in acts:
        claimed = (a['tag'] == 'iterate' and rule in ('meek', 'warren')) or a['tag'] == 'end' or \
                  (rule == 'meek-prf' and a['tag'] in ('begin', 'elect', 'tie', 'defeat') and not a['msg'].startswith(('Defeat remaining', 'Elect remaining')))
        if claimed:
            sig = kf_out_of_range(E, a, sig)
            tot = a['votes'] + a['residual']
            if fv(E, tot) != n:
                out.append(V_('c08-total', "votes %s + residual %s != %d ballots at %r" % (a['votes'], a['residual'], n, a['msg']), **sig))
            if fv(E, a['residual']) < 0:
                out.append(V_('c08-negative', "negative residual %s at %r" % (a['residual'], a['msg']), **sig))
            for cid, c in a['cstate'].items():
                if c['state'] == 'withdrawn': continue
                kf = c.get('kf')
                if fv(E, c['vote']) < 0: out.append(V_('c08-negative', "negative tally for %d at %r" % (cid, a['msg']), **sig))
                if c['state'] == 'hopeful' and (kf is None or fv(E, kf) != 1):
                    out.append(V_('c08-kf-hopeful', "hopeful %d has keep factor %s at %r" % (cid, kf, a['msg']), **sig))
                if c['state'] == 'defeated' and prev is not None and prev['cstate'][cid]['state'] == 'defeated' and fv(E, kf) != 0:
                    out.append(V_('c08-kf-defeated', "defeated %d has keep factor %s at %r" % (cid, kf, a['msg']), **sig))
                if c['state'] == 'elected':
                    k = fv(E, kf)
                    if k <= 0: out.append(V_('c08-kf-zero', "elected %d has keep factor %s at %r" % (cid, kf, a['msg']), **sig))
                    if k > 1: out.append(V_('c08-kf-above-one', "elected %d has keep factor %s at %r" % (cid, kf, a['msg']), **sig))
        if a['tag'] == 'iterate':
            round_exit[a['round']] = a['msg']
            if a['msg'] == 'Iterate (omega)':
                om = Fraction(1, 10 ** int(E.rule.omega10))
                omv = V(1) / V(10 ** int(E.rule.omega10))
                if not (a['surplus'] <= omv):
                    out.append(V_('c08-exit', "iteration ended for convergence with surplus %s > omega %s" % (a['surplus'], omv), **sig))
            if a['msg'] == 'Iterate (stable)':
                logs = [x for x in E.erecord['actions'] if x['tag'] == 'log' and x['round'] == a['round'] and x['msg'].startswith('Stable state detected')]
                if not logs: out.append(V_('c08-exit', "stable exit in round %d not logged" % a['round'], **sig))
        if a['tag'] == 'defeat' and rule in ('meek', 'warren') and not a['msg'].startswith('Defeat remaining'):
            ex = round_exit.get(a['round'])
            if ex not in ('Iterate (omega)', 'Iterate (stable)', 'Iterate (batch)'):
                out.append(V_('c08-exit', "exclusion %r in round %d without a converged end of iteration (%r)" % (a['msg'], a['round'], ex), **sig))
        if a['tag'] == 'defeat' and rule == 'meek-prf' and a['msg'].startswith('Defeat (surplus'):
            omv = V(1) / V(10 ** 6)
            if not (a['surplus'] < omv):
                out.append(V_('c08-exit', "meek-prf excluded with surplus %s not below omega" % a['surplus'], **sig))
        prev = a
    return out

# ------------------------------------------------------------------ C09
def c09(E, blt, opts, r):
    out = []; sig = arith_sig(E); rule = rule_name(E)
    acts = snaps(E)
    rule_ = rule
    n_electable = len([c for c in E.C if c.cid not in E.electionProfile.withdrawn and not (rule == 'mpls' and c.cid in E.electionProfile.undeclared)])
    need = min(E.nSeats, n_electable)
    prev = None; lastround = 0
    for a in E.erecord['actions']:
        if a['round'] < lastround:
            out.append(V_('c09-round', "round number decreases to %d at %r" % (a['round'], a['msg']), **sig))
        lastround = a['round']
    defeat_in_round = {}
    for a in acts:
        cs = a['cstate']
        if a['tag'] == 'defeat': defeat_in_round[a['round']] = True
        ne = len([1 for c in cs.values() if c['state'] == 'elected'])
        nh = len([1 for cid, c in cs.items() if c['state'] == 'hopeful' and not (rule == 'mpls' and cid in E.electionProfile.undeclared)])
        if ne > E.nSeats:
            sg = sig
            if rule in MEEKS and a.get('quota') is not None and any(c['state'] == 'elected' and fv(E, c['vote']) < fv(E, a['quota']) for c in cs.values()):
                sg = dict(sig, elected_below_quota=True)    # an elected candidate no longer holds the quota (finding K13)
            out.append(V_('c09-over', "%d elected for %d seats at %r" % (ne, E.nSeats, a['msg']), **sg))
        if ne + nh < need:
            out.append(V_('c09-under', "%d elected + %d continuing < %d fillable seats at %r" % (ne, nh, need, a['msg']), **sig))
        if prev is not None:
            prev = qpq_prev(E, acts, prev)
            for cid, c in cs.items():
                p = prev['cstate'][cid]; s0, s1 = p['state'], c['state']
                if s0 == s1:
                    if s0 == 'elected' and (not p.get('pending')) and c.get('pending'):
                        out.append(V_('c09-transition', "candidate %d becomes transfer-pending again at %r" % (cid, a['msg']), **sig))
                    continue
                ok = (s0 == 'hopeful' and s1 in ('elected', 'defeated'))
                if not ok:
                    out.append(V_('c09-transition', "candidate %d goes %s -> %s at %r" % (cid, s0, s1, a['msg']), **sig))
        prev = a
    return out

# ------------------------------------------------------------------ C18 (a): audit trail
def c18_trail(E, blt, opts, r):
    out = []; sig = arith_sig(E); rule = rule_name(E)
    allacts = E.erecord['actions']
    acts = snaps(E)
    if not acts: return [V_('c18-empty', "no actions recorded", **sig)]
    first_ok = ('begin',) if rule != 'mpls' else ('round', 'count', 'begin')
    if acts[0]['tag'] not in first_ok: out.append(V_('c18-begin', "first action is %r" % acts[0]['tag'], **sig))
    if r['status'] == 'ok' and (allacts[-1]['tag'] != 'end'): out.append(V_('c18-end', "last action is %r" % allacts[-1]['tag'], **sig))
    prev = None
    for a in acts:
        cs = a['cstate']
        if prev is not None:
            prev = qpq_prev(E, acts, prev)
            changed = [cid for cid in cs if cs[cid]['state'] != prev['cstate'][cid]['state']]
            if a['tag'] in ('elect', 'defeat'):
                name = a['msg'].split(': ', 1)[1] if ': ' in a['msg'] else None
                named = [c for c in E.C if c.name == name]
                want_state = 'elected' if a['tag'] == 'elect' else 'defeated'
                okc = [c for c in named if cs[c.cid]['state'] == want_state and
                       (prev['cstate'][c.cid]['state'] != want_state or prev['cstate'][c.cid].get('pending') != cs[c.cid].get('pending'))]
                if not okc:
                    out.append(V_('c18-names-unchanged', "%s action %r names no candidate whose status changes at that step" % (a['tag'], a['msg']), **sig))
                extra = [cid for cid in changed if cid not in [c.cid for c in named]]
                if extra:
                    out.append(V_('c18-unlisted-change', "status of %s changes at %r without being listed" % (extra, a['msg']), **sig))
            elif changed:
                out.append(V_('c18-unlisted-change', "status of %s changes at %s action %r" % (changed, a['tag'], a['msg']), **sig))
        prev = a
    if r['status'] == 'ok':
        last = acts[-1]['cstate']
        if sorted(c.cid for c in E.elected) != sorted(cid for cid, c in last.items() if c['state'] == 'elected') or \
           sorted(c.cid for c in E.defeated) != sorted(cid for cid, c in last.items() if c['state'] == 'defeated'):
            out.append(V_('c18-final', "final step differs from the winners/losers the election object reports", **sig))
    return out

# ------------------------------------------------------------------ C07: tie-order independence (metamorphic)
def c07_independence(E, blt, opts, r):
    """when no tie is logged, the record does not depend on the tie-break order"""
    if r['status'] != 'ok': return []
    if any(a['tag'] == 'tie' for a in E.erecord['actions']): return []
    import count_driver as cd, random, re
    n = len(E.C)
    rng = random.Random(hash(blt) & 0xffffffff)
    perm = list(range(1, n + 1)); rng.shuffle(perm)
    line = '[tie %s]' % ' '.join(map(str, perm))
    if '[tie ' in blt:
        blt2 = re.sub(r'\[tie [^\]]*\]', line, blt)
    else:
        head, rest = blt.split('\n', 1)
        blt2 = head + '\n' + line + '\n' + rest
    r2 = cd.impl_count(blt2, opts, timeout=20)
    if r2['status'] == 'timeout': return []
    if r2['trace'] != r['trace']:
        d = cd.first_diff(r['trace'], r2['trace'])
        return [V_('c07-tie-order-dependence', "no tie logged, yet the record changes under tie order %s: %s" % (perm, d), **arith_sig(E))]
    return []

def guarded_stats(E, blt, opts, r):
    "not an oracle: exports the Guarded comparison statistics of this count"
    V = E.V
    if V.name != 'guarded': return []
    geps = max(1, 10 ** V.guard // 2)
    return [dict(kind='stats', detail='', sig=dict(maxDiff=V.maxDiff, minDiff=V.minDiff, geps=geps))]

# ------------------------------------------------------------------ C05: Droop proportionality for solid coalitions
def c05(E, blt, opts, r):
    if r['status'] != 'ok': return []
    rule = rule_name(E); V = E.V
    if rule == 'mpls' and E.electionProfile.undeclared: return []
    if E.ballotsEqual: return []
    acts = snaps(E)
    if not acts: return []
    first = [a for a in acts if a['tag'] in ('begin', 'count')]
    if not first: return []
    quota = fv(E, first[0]['quota'])
    if rule == 'qpq':
        quota = Fraction(E.nBallots, E.nSeats + 1)      # QPQ's own initial quota va/(1+s)
    S = scale_of(E)
    elig = [c.cid for c in E.C if c.state != 'withdrawn']
    n = len(elig)
    if n > 9: return []
    allowance = Fraction(0) if S is None else Fraction(2 * E.nBallots * len(elig), S)
    # Meek-family rules stop iterating when the total surplus is within omega: that much may stay untransferred.  omega is the
    # one the count was ASKED for (options, else the rule's documented default), not whatever the rule object ended up with
    if rule in ('meek', 'warren', 'meek-prf'):
        try:
            if rule == 'meek-prf':
                om10 = 6
            else:
                d = declared_options(blt, opts)
                ar = d.get('arithmetic', 'guarded')
                prec = int(d.get('precision', 18 if ar == 'guarded' else 9))
                om10 = int(d['omega']) if 'omega' in d else (prec // 2 if ar == 'guarded' else prec * 2 // 3 if ar == 'fixed' else 10)
            allowance += Fraction(1, 10 ** om10)
        except (TypeError, ValueError):
            pass
    elected = set(c.cid for c in E.elected)
    out = []
    ballots = [(int(fv(E, b.multiplier)), list(b.ranking)) for b in E.ballots]
    for size in range(1, n + 1):
        for Sset in itertools.combinations(elig, size):
            ss = set(Sset)
            G = sum(m for m, rk in ballots if len(rk) >= size and set(rk[:size]) == ss)
            if G == 0: continue
            # largest k with G > k*quota + allowance
            k = 0
            while G > (k + 1) * quota + allowance: k += 1
            if k == 0: continue
            need = min(k, size)
            got = len(elected & ss)
            if got < need:
                sig = arith_sig(E)
                sig['after_stable_exit'] = any(a['msg'] == 'Iterate (stable)' for a in acts)
                if rule == 'qpq':     # K19 / K17: shares 1/quotient lose their significant digits above a quotient of 10**9
                    S9 = 10 ** 9
                    sig['share_underflow'] = any(x.get('quotient') is not None and fv(E, x['quotient']) >= S9 for a in acts for x in a['cstate'].values())
                out.append(V_('c05-coalition', "coalition %s is ranked first by %d ballots > %d quotas (quota %s, allowance %s) but only %d of its members are elected %s"
                              % (sorted(ss), G, k, quota, allowance, got, sorted(elected)), **sig))
                return out
    return out

# ------------------------------------------------------------------ C10: presentation independence (metamorphic)
def _renderings(blt, opts):
    import count_driver as cd
    r = cd.impl_count(blt, opts, timeout=20, want_E=True)
    if 'E' not in r or r['status'] != 'ok': return r['status'], None
    E = r['E']
    return 'ok', (cd.project(r['trace'], 'record'), E.report(), E.dump())

def c10(E, blt, opts, r):
    """re-present the same election: shuffled ballot lines, split/merged multipliers, layout, comments, nicknames"""
    if r['status'] != 'ok': return []
    import random, re
    rng = random.Random(hash(blt) & 0xffffffff)
    p = E.electionProfile
    n = p.nCand
    lines = [(b.multiplier, [[c] for c in b.ranking]) for b in p.ballotLines] + \
            [(b.multiplier, [list(rk) for rk in b.ranking]) for b in p.ballotLinesEqual]
    # split / merge multipliers, then shuffle -- equal-rank and strict ballots stay in their own lists in the
    # implementation, so only the order within the file changes
    new = []
    for m, rk in lines:
        if m > 1 and rng.random() < 0.5:
            a = rng.randint(1, m - 1); new.append((a, rk)); new.append((m - a, rk))
        else:
            new.append((m, rk))
    # merge identical adjacent after sorting some
    if rng.random() < 0.5:
        merged = {}
        order = []
        for m, rk in new:
            key = json_key(rk)
            if key not in merged: merged[key] = [0, rk]; order.append(key)
            merged[key][0] += m
        new = [(merged[k][0], merged[k][1]) for k in order]
    rng.shuffle(new)
    use_nick = rng.random() < 0.5
    # nicknames of several shapes, some beginning with digits ('3rd0', '2_b1'): only a token made of digits alone is a number
    shapes = ['n%(a)s%(i)d', '%(k)drd%(i)d', '%(k)d_%(a)s%(i)d', '%(k)dA%(i)d', '%(a)s%(k)d']
    shape = rng.choice(shapes + ['mixed', 'n%(a)s%(i)d'])
    nicks = [(rng.choice(shapes) if shape == 'mixed' else shape) % dict(a=chr(97 + i % 26), i=i, k=rng.randint(1, n)) for i in range(n)]
    if len(set(nicks)) < n: nicks = ['n%s' % chr(97 + i % 26) + str(i) for i in range(n)]
    def ref(c): return nicks[c - 1] if use_nick else str(c)
    ws = [' ', '  ', '\t', '\n', ' \n ', '\r\n', ' ', '\n', '\r', '\x0c', '\u2028']
    def sep(): return rng.choice(ws)
    toks = ['%d' % n, '%d' % p.nSeats]
    if use_nick: toks.append('[nick %s]' % ' '.join(nicks))
    tie = sorted(p.tieOrder, key=lambda c: p.tieOrder[c])
    toks.append('[tie %s]' % ' '.join(ref(c) for c in tie))
    wds = sorted(p.withdrawn)
    k = rng.randint(0, len(wds))
    for w in wds[:k]:
        toks.append('-%d' % w)
    if wds[k:]:
        if rng.random() < 0.5: toks.append('[withdrawn %s]' % ' '.join(ref(c) for c in wds[k:]))
        else: toks.extend('[withdrawn %s]' % ref(c) for c in wds[k:])
    if p.undeclared: toks.append('[undeclared %s]' % ' '.join(ref(c) for c in sorted(p.undeclared)))
    if p.options: toks.append('[droop %s]' % ' '.join(p.options))
    for m, rk in new:
        toks.append(str(m))
        for rank in rk:
            toks.append('='.join(ref(c) for c in rank))
        toks.append('0')
        # a line comment ends where str.splitlines() ends the line: LF, CRLF, CR, VT, FF, FS, GS, RS, NEL, LS, PS
        if rng.random() < 0.3: toks.append(rng.choice(['# a comment 1 2 3', '# "quoted 0 in a line comment', '#']) + rng.choice(EOLS))
        if rng.random() < 0.25: toks.append(rng.choice(COMMENTS))
    toks.append('0')
    for c in range(1, n + 1):
        toks.append('"%s"' % p.candidateName[c])
        if rng.random() < 0.15: toks.append(rng.choice(COMMENTS))
    toks.append('"%s"' % p.title)
    if p.source: toks.append('"%s"' % p.source)
    if p.comment: toks.append('"%s"' % p.comment)
    blt2 = ''.join(t + (sep() if not t.endswith('\n') else '') for t in toks)
    s1, a = _renderings(blt, opts)
    s2, b = _renderings(blt2, opts)
    if s1 != 'ok' or s2 != 'ok':
        if s1 != s2 and 'timeout' not in (s1, s2):
            return [V_('c10-presentation', "re-presented file is counted with status %s instead of %s\n%s" % (s2, s1, blt2), **arith_sig(E))]
        return []
    out = []
    if not use_nick:
        names = ('record', 'report', 'dump')
    else:
        names = ('record', 'report', 'dump')   # nicknames appear in none of the three (cdict nick is in JSON only)
    def nostats(t):
        return "\n".join(l for l in t.split("\n") if not l.startswith(("\tmaxDiff:", "\tminDiff:")))
    for nm, x, y in zip(names, a, b):
        if x != y:
            import count_driver as cd
            sig = arith_sig(E)
            # the Guarded comparison statistics printed in the report are the only difference?
            sig['only_guarded_statistics'] = all(nostats(u) == nostats(v) for u, v in zip(a, b))
            out.append(V_('c10-presentation', "%s differs between two presentations of the same ballots: %s\n--- second presentation:\n%s" %
                          (nm, cd.first_diff(x, y), blt2), **sig))
            break
    return out

EOLS = ['\n', '\n', '\n', '\r\n', '\r', '\x0b', '\x0c', '\x1c', '\x1d', '\x1e', '\x85', '\u2028', '\u2029']
COMMENTS = ['/* nested /* comment */ 0 */', '/* printed as "Ally" on the paper */', '/* "two words" 7 0 */',
            '/* "open quote only */', '/* x" 3 */', '/**/', '/* # not a line comment */']

def json_key(rk):
    return tuple(tuple(x) for x in rk)

# ------------------------------------------------------------------ C11: neutrality (metamorphic)
def c11(E, blt, opts, r):
    if r['status'] != 'ok': return []
    import random, count_driver as cd
    rng = random.Random((hash(blt) >> 3) & 0xffffffff)
    p = E.electionProfile
    n = p.nCand
    out = []
    def build(perm, drop=()):
        """perm: old cid -> new cid (1..n'), candidates in `drop` are deleted"""
        keep = [c for c in range(1, n + 1) if c not in drop]
        inv = {perm[c]: c for c in keep}
        m = len(keep)
        toks = ['%d %d' % (m, p.nSeats)]
        tie = sorted(keep, key=lambda c: p.tieOrder[c])
        toks.append('[tie %s]' % ' '.join(str(perm[c]) for c in tie))
        for w in sorted(p.withdrawn):
            if w not in drop: toks.append('-%d' % perm[w])
        und = [c for c in sorted(p.undeclared) if c not in drop]
        if und: toks.append('[undeclared %s]' % ' '.join(str(perm[c]) for c in und))
        for b in p.ballotLines:
            rk = [perm[c] for c in b.ranking if c not in drop]
            if rk: toks.append('%d %s 0' % (b.multiplier, ' '.join(map(str, rk))))
        for b in p.ballotLinesEqual:
            rk = [[perm[c] for c in rank if c not in drop] for rank in b.ranking]
            rk = [x for x in rk if x]
            if rk: toks.append('%d %s 0' % (b.multiplier, ' '.join('='.join(map(str, x)) for x in rk)))
        toks.append('0')
        toks.append(' '.join('"%s"' % p.candidateName[inv[i]] for i in range(1, m + 1)))
        toks.append('"%s"' % p.title)
        return '\n'.join(toks) + '\n'
    # (1) renumbering
    ids = list(range(1, n + 1)); sh = ids[:]; rng.shuffle(sh)
    perm = dict(zip(ids, sh))
    blt2 = build(perm)
    r2 = cd.impl_count(blt2, opts, timeout=20, want_E=True)
    if r2['status'] == 'ok':
        E2 = r2['E']
        w1 = sorted(c.name for c in E.elected); w2 = sorted(c.name for c in E2.elected)
        t1 = sorted((c.name, str(c.vote)) for c in E.C if c.state != 'withdrawn')
        t2 = sorted((c.name, str(c.vote)) for c in E2.C if c.state != 'withdrawn')
        if w1 != w2:
            out.append(V_('c11-renumbering', "winners by name change under renumbering %s: %s vs %s" % (perm, w1, w2), **arith_sig(E)))
        elif t1 != t2:
            out.append(V_('c11-renumbering', "final tallies by name change under renumbering %s: %s vs %s" % (perm, t1, t2), **arith_sig(E)))
    elif r2['status'] != 'timeout':
        out.append(V_('c11-renumbering', "renumbered election ends with status %s" % r2['status'], **arith_sig(E)))
    # (2) withdrawn == deleted; the withdrawals are read off the file text (harness files spell them "-n" or
    #     "[withdrawn n ...]" with numbers, no comments), not taken from the parsed profile
    import re
    head = blt.split('"')[0]
    marked = set(int(x) for x in re.findall(r'(?<![\w=])-(\d+)', head))
    for grp in re.findall(r'\[withdrawn([^\]]*)\]', head):
        marked |= set(int(x) for x in grp.split() if x.isdigit())
    marked = set(c for c in marked if 1 <= c <= n) | set(p.withdrawn)
    if marked:
        keep = [c for c in range(1, n + 1) if c not in marked]
        perm2 = {c: i + 1 for i, c in enumerate(keep)}
        blt3 = build(perm2, drop=marked)
        r3 = cd.impl_count(blt3, opts, timeout=20, want_E=True)
        if r3['status'] == 'ok':
            def byname(Ex):
                cd_ = {c.cid: c.name for c in Ex.C}
                rows = []
                for a in Ex.erecord['actions']:
                    if a['tag'] == 'log':
                        if a['msg'].startswith('Add withdrawn'): continue
                        rows.append((a['tag'], a['msg'], a['round'])); continue
                    cs = tuple(sorted((cd_[cid], c['state'], c.get('pending'), str(c.get('vote')), str(c.get('kf')), str(c.get('quotient')))
                                      for cid, c in a['cstate'].items() if c['state'] != 'withdrawn'))
                    rows.append((a['tag'], a['msg'], a['round'], str(a['quota']), str(a['votes']), cs))
                return rows
            x, y = byname(E), byname(r3['E'])
            if x != y:
                k = next((i for i, (u, v) in enumerate(zip(x, y)) if u != v), min(len(x), len(y)))
                out.append(V_('c11-withdrawn', "withdrawing %s is not the same as deleting them: first difference at action %d: %r vs %r" %
                              (sorted(marked), k, x[k] if k < len(x) else None, y[k] if k < len(y) else None), **arith_sig(E)))
        elif r3['status'] != 'timeout':
            out.append(V_('c11-withdrawn', "election with withdrawn candidates deleted ends with status %s" % r3['status'], **arith_sig(E)))
    return out

def final_by_name(E, blt, opts, r):
    "not an oracle: exports winners and final tallies by candidate name (for paired runs)"
    if r['status'] != 'ok': return []
    w = sorted(c.name for c in E.elected)
    t = sorted((c.name, str(c.vote)) for c in E.C if c.state != 'withdrawn')
    return [dict(kind='final', detail=repr((w, t)), sig={})]

# ------------------------------------------------------------------ C18: renderings (separate module)
from oracles_render import *


def c17_report_header(E, blt, opts, r):
    """C17: 'the report names unused and overridden options' -- the header of report() has an 'Unused options' line
    iff options.unused() is non-empty and an 'Overridden options' line iff options.overrides() is non-empty, each
    listing exactly those names (the lists themselves are decided by the options model and the precedence oracle)."""
    if r['status'] != 'ok': return []
    out = []
    try:
        rep = E.report()
    except Exception as ex:
        return ['c17-report-header: report() raised %s' % type(ex).__name__]
    head = rep.split('\tBallots:', 1)[0]
    for label, want in (('Unused options', list(E.options.unused())), ('Overridden options', list(E.options.overrides()))):
        lines = [l.strip() for l in head.splitlines() if l.strip().startswith(label + ':')]
        got = [x.strip() for x in lines[0][len(label) + 1:].split(',')] if lines else []
        if len(lines) > 1 or sorted(got) != sorted(want):
            out.append('c17-report-header: report says %s: %r, the options object says %r' % (label, got if lines else None, want))
    return out
