"""Check framework: build, proof status, outcome logic, evidence."""
import os, sys, re, json, subprocess, time, fcntl, glob
from common import VERIF, WORK, REPO, write_json, replay_path, load_known_findings, seed_from_env

# standard-library axioms the development is allowed to depend on (each named in DESIGN §8 / trusted base)
ALLOWED_AXIOMS = {'functional_extensionality_dep', 'FunctionalExtensionality.functional_extensionality_dep'}

FORBIDDEN = re.compile(r'\b(Admitted|admit|Axiom|Parameter|Conjecture|Hypothesis|Variable)\b|Unset Guard|bypass_check|type-in-type|Admit Obligations')

def ensure_build():
    """regenerate from /repo and rebuild (serialised by a lock; incremental)"""
    lock = open(os.path.join(WORK, 'build.lock'), 'w')
    fcntl.flock(lock, fcntl.LOCK_EX)
    try:
        t0 = time.time()
        r = subprocess.run([os.path.join(VERIF, 'build.sh')], stdout=subprocess.PIPE, stderr=subprocess.STDOUT,
                           cwd=VERIF, timeout=7200)
        out = r.stdout.decode('utf-8', 'replace')
        return dict(code=r.returncode, log=out, wall=time.time() - t0,
                    translator_ok=('TRANSLATOR-FAIL' not in out and 'BUILD-FAIL translator' not in out),
                    model_ok=(r.returncode in (0, 6)), all_ok=(r.returncode == 0))
    finally:
        fcntl.flock(lock, fcntl.LOCK_UN)
        lock.close()

def forbidden_scan():
    """no Admitted/admit/Axiom/Parameter/... anywhere; Variable/Hypothesis only inside sections"""
    bad = []
    for path in glob.glob(os.path.join(VERIF, 'coq', '**', '*.v'), recursive=True):
        depth = 0
        incomment = 0
        for ln, line in enumerate(open(path, encoding='utf-8'), 1):
            code = re.sub(r'\(\*.*?\*\)', '', line)
            if '(*' in code and '*)' not in code:
                code = code.split('(*')[0]; incomment_next = 1
            else:
                incomment_next = 0
            if incomment and '*)' in code:
                code = code.split('*)', 1)[1]; incomment = 0
            elif incomment:
                continue
            if incomment_next: incomment = 1
            if re.match(r'\s*(Section|Module Type)\b', code): depth += 1
            if re.match(r'\s*End\b', code) and depth > 0: depth -= 1
            for m in FORBIDDEN.finditer(code):
                w = m.group(0)
                if w in ('Variable', 'Hypothesis') and depth > 0:
                    continue
                if w in ('Variable', 'Hypothesis') and re.search(r'\bVariables?\b|\bHypothes[ie]s\b', code) and depth > 0:
                    continue
                bad.append("%s:%d: %s" % (os.path.relpath(path, VERIF), ln, w))
    return bad

def proof_status(pid):
    """compile Props/<pid>.v (deps are built by make) and read the Print Assumptions output"""
    src = os.path.join(VERIF, 'coq', 'Props', pid + '.v')
    if not os.path.exists(src):
        return dict(exists=False, ok=False, theorems=[], closed=0, axioms=[], log='no Props file')
    text = open(src, encoding='utf-8').read()
    theorems = re.findall(r'^\s*Theorem\s+(\w+)', text, re.M)
    examples = re.findall(r'^\s*Example\s+(\w+)', text, re.M)
    printed = re.findall(r'^\s*Print Assumptions\s+(\w+)', text, re.M)
    # every proof in a Props file must be `exact <term>.`
    proofs = re.findall(r'Proof\.(.*?)Qed\.', text, re.S)
    structural = []
    thm_proofs = re.findall(r'Theorem\s+(\w+).*?Proof\.(.*?)Qed\.', text, re.S)
    for name, body in thm_proofs:
        if not re.fullmatch(r'\s*exact\s+[^.]*(\.[A-Za-z_][^.]*)*\.\s*', body):
            structural.append("theorem %s is not closed by a single `exact`" % name)
    for t in theorems:
        if t not in printed:
            structural.append("theorem %s has no Print Assumptions" % t)
    t0 = time.time()
    r = subprocess.run(['timeout', '900', 'coqc', '-Q', '.', 'Droop', '-w', '-notation-overridden', 'Props/%s.v' % pid],
                       cwd=os.path.join(VERIF, 'coq'), stdout=subprocess.PIPE, stderr=subprocess.STDOUT)
    out = r.stdout.decode('utf-8', 'replace')
    closed = len(re.findall(r'Closed under the global context', out))
    axioms = []
    nblocks = 0
    inblock = False
    for l in out.splitlines():
        if l.startswith('Axioms:'):
            inblock = True; nblocks += 1; continue
        if inblock:
            if l and not l[0].isspace():
                if l.startswith('Closed under') or l.startswith('File ') or l.startswith('Warning'):
                    inblock = False
                else:
                    axioms.append(l.split()[0].rstrip(':'))
            elif not l.strip():
                pass
    bad_axioms = [a for a in axioms if a not in ALLOWED_AXIOMS]
    ok = (r.returncode == 0 and not structural and not bad_axioms and
          closed + nblocks >= len(theorems) and (theorems or examples))
    return dict(exists=True, ok=ok, compiled=(r.returncode == 0), theorems=theorems, examples=examples, closed=closed,
                axioms=sorted(set(axioms)), axiom_blocks=nblocks, bad_axioms=bad_axioms, structural=structural, wall=time.time() - t0,
                log=out[-4000:] if r.returncode != 0 else '')

def coqchk_status(pid):
    """thorough tier: re-check the compiled property file and everything it depends on with the independent checker"""
    t0 = time.time()
    r = subprocess.run(['timeout', '2400', 'coqchk', '-o', '-silent', '-Q', '.', 'Droop', 'Droop.Props.%s' % pid],
                       cwd=os.path.join(VERIF, 'coq'), stdout=subprocess.PIPE, stderr=subprocess.STDOUT)
    out = r.stdout.decode('utf-8', 'replace')
    axioms = []; sect = None; other = {}
    for l in out.splitlines():
        m = re.match(r'\* (.*?):\s*(.*)$', l.strip())
        if m:
            sect = m.group(1); rest = m.group(2).strip()
            if sect != 'Axioms': other[sect] = rest
            continue
        if sect == 'Axioms' and l.strip():
            axioms.append(l.strip().split('.')[-1])
    bad = [a for a in axioms if a not in ALLOWED_AXIOMS]
    unsafe = {k: v for k, v in other.items() if k != 'Theory' and v not in ('<none>', '')}
    ok = r.returncode == 0 and not bad and not unsafe
    return dict(ok=ok, axioms=axioms, bad_axioms=bad, unsafe=unsafe, wall=round(time.time() - t0, 1), log=out[-1500:] if not ok else '')

TRUSTED_BASE = [
    "Coq 8.16.1 kernel (coqc; vm_compute used for finite checks and Examples; no native_compute)",
    "axioms: none declared by us; Print Assumptions is 'Closed under the global context' for every theorem except those transporting whole counts along an equality of arithmetic records (C13_guard0_*, C20_*), which depend on the standard library's functional_extensionality_dep",
    "harness/translate_values.py (Python ast -> Gallina) for the regenerated arithmetic kernels",
    "extraction: ExtrOcamlBasic, ExtrOcamlNativeString, ExtrOcamlZBigInt (model_fast) cross-checked against model_ref (no ExtrOcamlZBigInt); OCaml 4.13.1, zarith 1.12; extract/main.ml, zconv_*.ml",
    "correspondence harness (generators, canonicalisers, oracles) under /verif/harness",
    "CPython 3.12 semantics of int, //, %, divmod, fractions.Fraction, str formatting",
]

class Check:
    def __init__(self, pid, tier, level='proof'):
        self.pid, self.tier, self.level = pid, tier, level
        self.seed = seed_from_env()
        self.t0 = time.time()
        self.violations = []      # (what, payload, found_input: bool)
        self.known_hits = []
        self.cov = dict(evaluations=0, distinct_nontrivial=0, rule='', samples=[], traces_validated_against_impl=0)
        self.notes = []
        self.assumptions = []
        self.known = [k for k in load_known_findings() if k['property'] == pid or pid in k.get('also_seen_by', [])]
        self.distinct = set()

    # ---- bookkeeping
    def count(self, n=1): self.cov['evaluations'] += n
    def nontrivial(self, key): self.distinct.add(key)
    def validated(self, n=1): self.cov['traces_validated_against_impl'] += n
    def sample(self, s):
        if len(self.cov['samples']) < 6: self.cov['samples'].append(s)

    def match_known(self, signature):
        for k in self.known:
            if k.get('status') == 'open' and all((signature.get(f) in v) if isinstance(v, list) else (signature.get(f) == v)
                                                 for f, v in k['signature'].items()):
                return k
        return None

    def violation(self, what, payload, found_input=True, signature=None):
        """report a violation unless it matches an *open* known finding"""
        if signature is not None and found_input:
            k = self.match_known(signature)
            if k is not None:
                if k['id'] not in [x['id'] for x in self.known_hits]:
                    self.known_hits.append(k)
                return
        # keep at most a handful
        if len(self.violations) < 5:
            self.violations.append((what, payload, found_input))

    # ---- finish
    def finish(self, build, proof, extra_cov=None):
        wall = time.time() - self.t0
        self.cov['distinct_nontrivial'] = len(self.distinct)
        cov = dict(self.cov)
        refuted = [e for e in proof.get('examples', []) if e.endswith('_refuted')]
        nthm = len(proof.get('theorems', [])) + len(refuted)   # a machine-checked refutation is an obligation too
        cov.update(obligations=max(nthm, 1), discharged=(nthm if proof.get('ok') else min(proof.get('closed', 0), max(nthm - 1, 0))),
                   checker_cmd="cd /verif && ./build.sh && cd coq && coqc -Q . Droop Props/%s.v   # thorough: coqchk -o -Q . Droop Droop.Props.%s" % (self.pid, self.pid),
                   trusted_base=TRUSTED_BASE, theorems=proof.get('theorems', []), examples=proof.get('examples', []),
                   axioms_reported=proof.get('axioms', []), build_wall_s=round(build.get('wall', 0), 1),
                   notes=self.notes)
        if extra_cov: cov.update(extra_cov)
        if cov['discharged'] < 1:
            # schema: a proof-level file needs discharged >= 1; a broken development falls back to the generic keys
            cov['proof_broken'] = True
            cov['obligations_broken'] = cov.pop('obligations'); cov.pop('discharged')
            cov['distinct_nontrivial'] = max(cov['distinct_nontrivial'], 0)
        lines = []
        code = 0
        for k in self.known:
            if k.get('status') == 'open' and k['id'] in [x['id'] for x in self.known_hits]:
                lines.append("KNOWN-FINDING: property=%s %s" % (self.pid, k['text']))
        for what, payload, found in self.violations:
            payload = dict(payload); payload['property'] = self.pid; payload['what'] = what
            payload['seed'] = self.seed; payload['tier'] = self.tier
            path = replay_path(self.pid, payload)
            write_json(path, payload)
            lines.append("VIOLATION property=%s replay=%s%s" % (self.pid, path, "" if found else " no-failing-input-found"))
            code = 1
        ev = dict(property_id=self.pid, tier=self.tier, seed=self.seed, level=self.level, coverage=cov,
                  assumptions=self.assumptions, wall_s=round(wall, 2), violations=len(self.violations),
                  known_findings_seen=[k['id'] for k in self.known_hits])
        write_json(os.path.join(VERIF, 'evidence', self.pid + '.json'), ev)
        for l in lines: print(l)
        print("%s %s tier=%s seed=%d evaluations=%d distinct=%d validated=%d theorems=%d/%d wall=%.1fs" % (
            self.pid, "FAIL" if code else "ok", self.tier, self.seed, cov['evaluations'], cov['distinct_nontrivial'],
            cov['traces_validated_against_impl'], cov.get('discharged', 0), cov.get('obligations', cov.get('obligations_broken', 0)), wall))
        return code
