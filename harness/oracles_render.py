"""C18, renderings half: a direct, executable statement of "the text report, the tab-separated dump and the
JSON rendering agree with the record and with one another on every status, tally, quota and total; the JSON
is valid JSON and every dump row has the header's column count" -- evaluated on the implementation alone.
Same return convention as oracles.py: a list of dict(kind, detail, sig)."""
import json, re

SHORT_TAGS = ('round', 'log', 'iterate')
CAND_LABEL = {'Elected': 'elected', 'Pending': 'pending', 'Hopeful': 'hopeful', 'Defeated': 'defeated'}
CAND_RE = re.compile(r'^\t(Elected|Pending|Hopeful|Defeated): {1,2}(.*) \(([^()]*)\)$')
TOTAL_RE = re.compile(r'^\t(Elected votes|Pending votes|Hopeful votes|Defeated votes|Nontransferable votes|Residual|Total|Surplus|Votes|Quota|Threshold): (\S*)$')

def _V(kind, detail, **sig):
    s = dict(kind=kind); s.update(sig)
    return dict(kind=kind, detail=detail, sig=s)

def _sig(E):
    V = E.V
    return dict(rule=E.options.getopt('rule'), arithmetic=V.name, method=E.rule.method)

def parse_report(report, actions):
    """split the report into its header and one entry per recorded action (in order).
    Returns (header_lines, entries) with entries[i] = dict(kind='log'|'round'|'action', lines=[...], cands=[(label,name,val)],
    totals={label: val}) or raises ValueError when the text cannot be aligned with the record."""
    lines = report.split('\n')
    if lines and lines[-1] == '': lines.pop()
    # the header ends at the first line that is the rendering of the first action
    first = actions[0] if actions else None
    def head(a):
        if a['tag'] == 'log': return '\t%s' % a['msg']
        if a['tag'] == 'round': return 'Round %d:' % a['round']
        return 'Action: %s' % a['msg']
    if first is None:
        return lines, []
    # the header block ends with an empty line; then optionally the arithmetic report (5 lines + empty line)
    # and the interrupt marker (1 line + empty line)
    pos = next((i for i, l in enumerate(lines) if i >= 3 and l == ''), None)
    if pos is None:
        raise ValueError("report header is not terminated by an empty line")
    pos += 1
    if pos < len(lines) and lines[pos].startswith('\tmaxDiff: '):
        pos += 6
    if pos < len(lines) and lines[pos].startswith('\t** Count terminated prematurely'):
        pos += 2
    header = lines[:pos]
    entries = []
    for a in actions:
        if pos >= len(lines) or lines[pos] != head(a):
            raise ValueError("expected %r at report line %d, found %r" % (head(a), pos, lines[pos] if pos < len(lines) else '<end>'))
        pos += 1
        if a['tag'] in ('log', 'round'):
            entries.append(dict(kind=a['tag'], cands=[], totals={}))
            continue
        cands = []; totals = {}
        while pos < len(lines):
            m = CAND_RE.match(lines[pos]) if not totals else None
            if m:
                cands.append((m.group(1), m.group(2), m.group(3))); pos += 1; continue
            m = TOTAL_RE.match(lines[pos])
            if m and m.group(1) not in totals:
                totals[m.group(1)] = m.group(2); pos += 1; continue
            break
        entries.append(dict(kind='action', cands=cands, totals=totals))
    if pos != len(lines):
        raise ValueError("report has %d unexplained trailing lines, first %r" % (len(lines) - pos, lines[pos]))
    return header, entries

def c18_renderings(E, blt, opts, r):
    out = []; sig = _sig(E)
    rec = E.erecord
    report = r.get('report') if isinstance(r, dict) and 'report' in r else E.report()
    dump = r.get('dump') if isinstance(r, dict) and 'dump' in r else E.dump()
    js = r.get('json') if isinstance(r, dict) and 'json' in r else E.json()
    method = E.rule.method
    V = E.V; V0 = E.V0
    acts = rec['actions']
    cids = rec['cids']; ecids = rec['ecids']; cdict = rec['cdict']
    def bad(kind, detail, **kw):
        if len(out) < 6:
            s = dict(sig); s.update(kw)
            out.append(_V(kind, detail, **s))

    # ---- JSON is valid JSON
    try:
        J = json.loads(js)
    except Exception as ex:
        return [_V('c18-json-invalid', "json.loads failed: %s" % ex, **sig)]
    if not isinstance(J, dict) or not isinstance(J.get('actions'), list):
        return [_V('c18-json-invalid', "JSON top level is not the record", **sig)]
    if len(J['actions']) != len(acts):
        bad('c18-json-actions', "JSON lists %d actions, the record %d" % (len(J['actions']), len(acts)))
        return out

    # ---- rendering must not write into the record: every action still carries the number of the round it happened in (the 'X'
    #      of the dump's last row belongs to the dump alone), in the record and in the JSON made from it
    for k, (a, ja) in enumerate(zip(acts, J['actions'])):
        if not (isinstance(a['round'], int) and not isinstance(a['round'], bool)) or ja.get('round') != a['round'] or \
           not (isinstance(ja.get('round'), int) and not isinstance(ja.get('round'), bool)):
            bad('c18-round-field', "action %d (%s): round is %r in the record and %r in the JSON" % (k, a['tag'], a['round'], ja.get('round')))
            break
    if [a['round'] for a in acts if isinstance(a['round'], int)] != sorted(a['round'] for a in acts if isinstance(a['round'], int)):
        bad('c18-round-field', "round numbers of the actions are not in order after rendering")

    # ---- dump: one row per action under a header row; column counts
    if any(('\n' in a['msg'] or '\t' in a['msg']) for a in acts) or any(('\n' in cdict[c]['name'] or '\t' in cdict[c]['name']) for c in cids):
        rows = None     # a tab or newline inside a name breaks the table: outside the oracle's envelope
    else:
        dl = dump.split('\n')
        if dl[-1] != '':
            bad('c18-dump-rows', "dump does not end with a newline")
        dl = dl[:-1] if dl[-1] == '' else dl
        rows = [l.split('\t') for l in dl]
        if len(rows) != len(acts) + 1:
            bad('c18-dump-rows', "dump has %d rows for %d actions" % (len(rows) - 1, len(acts)))
            rows = None
    ncol = len(rows[0]) if rows else None
    per = {'wigm': 3, 'meek': 4, 'qpq': 3}[method]
    base = 3 + {'wigm': 1, 'meek': 3, 'qpq': 0}[method]
    if rows is not None and ncol != base + per * len(ecids):
        bad('c18-dump-header', "header has %d columns, expected %d" % (ncol, base + per * len(ecids)))
    short_tags = set()

    # ---- report aligned with the record
    try:
        header, entries = parse_report(report, acts)
    except ValueError as ex:
        bad('c18-report-structure', str(ex)); entries = None; header = []

    def name_of(cid): return cdict[cid]['name']
    for i, A in enumerate(acts):
        tag = A['tag']; JA = J['actions'][i]
        where = "action %d (%s %r)" % (i, tag, A['msg'][:60])
        # tag / msg / round in all renderings
        if (JA.get('tag'), JA.get('msg'), JA.get('round')) != (tag, A['msg'], A['round']):
            bad('c18-json-action', "%s: JSON has tag/msg/round %r" % (where, (JA.get('tag'), JA.get('msg'), JA.get('round'))))
        row = rows[i + 1] if rows is not None else None
        if row is not None:
            if tag in SHORT_TAGS:
                short_tags.add(tag)
                if row != [str(A['round']), tag, A['msg']]:
                    bad('c18-dump-row', "%s: short dump row is %r" % (where, row[:5]))
            elif len(row) != ncol:
                bad('c18-dump-columns', "%s: dump row has %d cells, the header %d" % (where, len(row), ncol))
                row = None
        if tag == 'log':
            continue
        cs = A['cstate']
        # ---- JSON action vs record
        jc = JA.get('cstate', {})
        if sorted(jc.keys(), key=int) != [str(c) for c in sorted(cs)]:
            bad('c18-json-cstate', "%s: JSON cstate keys %r" % (where, list(jc.keys())[:20]))
        else:
            for cid in cs:
                c = cs[cid]; j = jc[str(cid)]
                exp = dict(state=c['state'], code=c['code'])
                for k in ('vote', 'kf', 'quotient'):
                    if k in c: exp[k] = str(c[k])
                if 'pending' in c: exp['pending'] = c['pending']
                if j != exp:
                    bad('c18-json-candidate', "%s: candidate %d is %r in the JSON, %r in the record" % (where, cid, j, exp))
                want_code = {'withdrawn': 'W', 'hopeful': 'H', 'defeated': 'D'}.get(c['state']) or \
                            ('e' if (method == 'wigm' and c.get('pending')) else 'E')
                if c['code'] != want_code:
                    bad('c18-code', "%s: candidate %d has code %r for state %r pending %r" % (where, cid, c['code'], c['state'], c.get('pending')))
        for k in ('quota', 'votes', 'nt_votes', 'residual', 'surplus'):
            if (k in A) != (k in JA) or (k in A and JA[k] != str(A[k])):
                bad('c18-json-totals', "%s: %s is %r in the JSON, %r in the record" % (where, k, JA.get(k), str(A.get(k))))
        # ---- dump row vs record
        if row is not None and tag not in SHORT_TAGS:
            exp = ['X' if tag == 'end' else str(A['round']), tag, str(A['quota'])]
            if method == 'wigm': exp += [str(A['nt_votes'])]
            elif method == 'meek': exp += [str(A['votes']), str(A['surplus']), str(A['residual'])]
            for cid in ecids:
                c = cs[cid]
                exp += [name_of(cid), c['code']]
                if method == 'wigm': exp += [str(c['vote'])]
                elif method == 'meek': exp += [str(c['vote']), str(c.get('kf'))]
                else: exp += [str(c.get('quotient'))]
            if row != exp:
                k = next((n for n, (x, y) in enumerate(zip(row, exp)) if x != y), min(len(row), len(exp)))
                bad('c18-dump-cell', "%s: dump column %d (%s) is %r, the record says %r" %
                    (where, k, rows[0][k] if k < len(rows[0]) else '?', row[k] if k < len(row) else None, exp[k] if k < len(exp) else None))
        # ---- report block vs record
        if entries is None: continue
        ent = entries[i]
        if tag == 'round': continue
        qpq_own = method == 'qpq' and tag in ('begin', 'tie', 'elect', 'defeat', 'transfer', 'end')
        lists = (tag != 'tie') if qpq_own else tag in ('begin', 'count', 'elect', 'defeat', 'pend', 'transfer', 'end')
        # expected multiset of (status, name, value) from the record
        want = []
        if lists:
            for cid in cids:
                c = cs[cid]
                if c['state'] == 'withdrawn': continue
                if qpq_own:
                    st = c['state']; val = str(c.get('quotient'))
                else:
                    st = 'pending' if (c['state'] == 'elected' and c.get('pending')) else c['state']
                    val = str(c['vote'])
                want.append((st, name_of(cid), val))
        got = []
        ambiguous = any(', ' in name_of(cid) for cid in cids)
        for label, name, val in ent['cands']:
            st = CAND_LABEL[label]
            if st == 'defeated' and not qpq_own and val == str(V0) and ', ' in name and not ambiguous:
                got += [(st, n, val) for n in name.split(', ')]
            else:
                got.append((st, name, val))
        if not ambiguous and sorted(got) != sorted(want):
            miss = [x for x in want if x not in got]; extra = [x for x in got if x not in want]
            # the only difference: defeated candidates whose tally equals zero under the arithmetic's own (fuzzy) comparison are
            # printed in the zero-vote group as V0 although their recorded tally prints differently (finding K16)
            zg = bool(miss) and len(miss) == len(extra) and all(
                st == 'defeated' and (st, nm, str(V0)) in extra and any(name_of(c) == nm and cs[c]['vote'] == V0 and str(cs[c]['vote']) != str(V0) for c in cids)
                for st, nm, val in miss)
            bad('c18-report-status', "%s: the report block lists %r, the record has %r (missing %r, extra %r)" %
                (where, got[:6], want[:6], miss[:4], extra[:4]), zero_group_only=zg)
        # totals
        T = ent['totals']
        qn = E.rule.quota_name
        exp = {}
        if qpq_own:
            exp[qn] = str(A['quota'])
        elif method == 'meek':
            exp = {qn: str(A['quota']), 'Votes': str(A['votes']), 'Residual': str(A['residual']),
                   'Total': str(A['votes'] + A['residual']), 'Surplus': str(A['surplus'])}
        elif method == 'wigm':
            def tot(sel): return sum([cs[cid]['vote'] for cid in cids if sel(cs[cid])], V0)
            ev = tot(lambda c: c['state'] == 'elected' and not c.get('pending'))
            pv = tot(lambda c: c['state'] == 'elected' and c.get('pending'))
            hv = tot(lambda c: c['state'] == 'hopeful')
            dv = tot(lambda c: c['state'] == 'defeated')
            exp = {'Elected votes': str(ev), 'Hopeful votes': str(hv), 'Nontransferable votes': str(A['nt_votes']),
                   'Surplus': str(A['surplus'])}
            if pv: exp['Pending votes'] = str(pv)
            if dv: exp['Defeated votes'] = str(dv)
            total = ev + pv + hv + dv + A['nt_votes']
            resid = V(rec['nballots']) - total
            exp['Residual'] = str(resid); exp['Total'] = str(total + resid)
        if T != exp:
            bad('c18-report-totals', "%s: the report block prints %r, the record gives %r" % (where, T, exp))
        # the renderings agree with one another (stated directly)
        if row is not None and tag not in SHORT_TAGS and qn in T and T[qn] != row[2]:
            bad('c18-cross', "%s: quota %r in the report, %r in the dump" % (where, T[qn], row[2]))

    # ---- header of the report vs the JSON top level
    hdr = dict()
    for l in header:
        m = re.match(r'^\t(Seats|Ballots|%s): (.*)$' % re.escape(E.rule.quota_name), l)
        if m and m.group(1) not in hdr: hdr[m.group(1)] = m.group(2)
    if entries is not None:
        exp = {'Seats': str(rec['seats']), 'Ballots': str(rec['nballots']), E.rule.quota_name: str(rec['quota'])}
        if hdr != exp:
            bad('c18-report-header', "report header has %r, the record %r" % (hdr, exp))
        if (J.get('seats'), J.get('nballots'), J.get('quota')) != (rec['seats'], rec['nballots'], str(rec['quota'])):
            bad('c18-json-header', "JSON has seats/nballots/quota %r" % ((J.get('seats'), J.get('nballots'), J.get('quota')),))
    if J.get('cids') != list(cids) or J.get('ecids') != list(ecids):
        bad('c18-json-header', "JSON cids/ecids %r %r" % (J.get('cids'), J.get('ecids')))

    # ---- the literal claim "every dump row has the header's column count" fails for round/log/iterate rows
    if rows is not None and short_tags and ncol != 3:
        n = sum(1 for a in acts if a['tag'] in SHORT_TAGS)
        i = next(k for k, a in enumerate(acts) if a['tag'] in SHORT_TAGS)
        s = dict(kind='c18-dump-short-row'); s.update(sig)
        out.append(dict(kind='c18-dump-short-row',
                        detail="%d of %d dump rows (tags %s) have 3 cells [round, tag, msg] while the header has %d columns; e.g. row %d: %r" %
                               (n, len(acts), sorted(short_tags), ncol, i + 1, rows[i + 1]), sig=s))
    return out
