"""Correspondence driver `options`: the option store (droop/options.py), every rule's options(),
values.ArithmeticClass and the three initialize() classmethods, run in-process on /repo's droop
and in the extracted Coq model (Model/DriverOptions.v); canonical texts are compared.

A case (kind 'setup') is
    dict(kind='setup', probes=[(num, den)...], hist=[config...], cfg=config)
    config = dict(cmd={key: value}, file={key: value} | None, strs=[str...] | None)
The implementation side mirrors Election.__init__ from `Options(options)` to
`self.V = values.ArithmeticClass(self.options)` on a minimal stand-in for the Election object.

The text has a history-independent part (everything an election reads under the resulting
configuration) and a history-dependent part (lines `hist ...` and `state: ...`: the outcome of each
earlier election and *every* class attribute, stale ones included).  C20's oracle compares the
first part across histories; model-vs-implementation compares both parts."""
import binascii
from common import import_droop, tok_i, tok_s, rng_for, REPO
import os, sys

droop = import_droop()
from droop.options import Options
from droop import values as dvalues
from droop.values import fixed as _fixed, guarded as _guarded, rational as _rational
Fixed, Guarded, Rational = _fixed.Fixed, _guarded.Guarded, _rational.Rational

RULES = ['wigm', 'wigm-prf', 'wigm-prf-batch', 'scotland', 'cfer', 'cfer-batch', 'mpls', 'meek', 'warren', 'meek-prf', 'qpq']
STATUTORY = ['wigm-prf', 'wigm-prf-batch', 'scotland', 'cfer', 'cfer-batch', 'mpls', 'meek-prf', 'qpq']
KNOWN_KEYS = ['arithmetic', 'precision', 'guard', 'display', 'omega', 'integer_quota', 'defeat_batch', 'rule', 'path']

# ------------------------------------------------------------------ class state: names, reset
FIELDS = [
    ('Fixed.name', Fixed, 'name'), ('Fixed.info', Fixed, 'info'), ('Fixed.epsilon', Fixed, 'epsilon'),
    ('Fixed.precision', Fixed, 'precision'), ('Fixed.display', Fixed, 'display'), ('Fixed.__scale', Fixed, '_Fixed__scale'),
    ('Fixed.__dfmt', Fixed, '_Fixed__dfmt'), ('Fixed.__scaled', Fixed, '_Fixed__scaled'),
    ('Fixed.__scaledd', Fixed, '_Fixed__scaledd'), ('Fixed.__scaledr', Fixed, '_Fixed__scaledr'),
    ('Guarded.precision', Guarded, 'precision'), ('Guarded.guard', Guarded, 'guard'), ('Guarded.display', Guarded, 'display'),
    ('Guarded.__scale', Guarded, '_Guarded__scale'), ('Guarded.__scalep', Guarded, '_Guarded__scalep'),
    ('Guarded.__scaleg', Guarded, '_Guarded__scaleg'), ('Guarded.__scaled', Guarded, '_Guarded__scaled'),
    ('Guarded.__scaledd', Guarded, '_Guarded__scaledd'), ('Guarded.__scaledr', Guarded, '_Guarded__scaledr'),
    ('Guarded.__scaledg', Guarded, '_Guarded__scaledg'), ('Guarded.__geps', Guarded, '_Guarded__geps'),
    ('Guarded.maxDiff', Guarded, 'maxDiff'), ('Guarded.minDiff', Guarded, 'minDiff'), ('Guarded.__dfmt', Guarded, '_Guarded__dfmt'),
    ('Guarded.info', Guarded, 'info'), ('Guarded.quasi_exact', Guarded, 'quasi_exact'), ('Guarded.exact', Guarded, 'exact'),
    ('Guarded.epsilon', Guarded, 'epsilon'),
    ('Rational.dp', Rational, 'dp'), ('Rational._dps', Rational, '_dps'), ('Rational._dpr', Rational, '_dpr'),
    ('Rational._dfmt', Rational, '_dfmt'),
]
# attributes no initialize() assigns: constants of the class bodies (checked, not state)
CONSTANTS = [(Fixed, 'exact', False), (Fixed, 'quasi_exact', False), (Guarded, 'name', 'guarded'),
             (Rational, 'name', 'rational'), (Rational, 'info', 'rational arithmetic'), (Rational, 'exact', True),
             (Rational, 'quasi_exact', False), (Rational, '_Rational__default_denominator', None)]
_ABSENT = object()
_PRISTINE = None

def _snapshot():
    return {(cls, attr): cls.__dict__.get(attr, _ABSENT) for (_, cls, attr) in FIELDS}

def reset_classes():
    """put the three value classes back into the state their class bodies define"""
    global _PRISTINE
    if _PRISTINE is None:
        # what the class bodies define, read from a fresh interpreter (nothing has called initialize() there)
        import subprocess, json as _json
        code = ("import sys, json\nsys.path.insert(0, %r)\n"
                "from droop.values.fixed import Fixed\nfrom droop.values.guarded import Guarded\nfrom droop.values.rational import Rational\n"
                "C = dict(Fixed=Fixed, Guarded=Guarded, Rational=Rational)\nout = {}\n"
                "for key in json.load(sys.stdin):\n"
                "    cn, attr = key.split('|')\n"
                "    d = C[cn].__dict__\n"
                "    out[key] = ['v', d[attr]] if attr in d and isinstance(d[attr], (type(None), bool, int, str)) else (['absent'] if attr not in d else ['other', repr(d[attr])])\n"
                "json.dump(out, sys.stdout)\n") % REPO
        keys = ['%s|%s' % (cls.__name__, attr) for (_, cls, attr) in FIELDS]
        r = subprocess.run([sys.executable, '-c', code], input=_json.dumps(keys).encode(), stdout=subprocess.PIPE, stderr=subprocess.PIPE,
                           env=dict(os.environ, PYTHONHASHSEED='0'), timeout=120)
        if r.returncode != 0:
            raise RuntimeError('cannot read the pristine class state: ' + r.stderr.decode()[-400:])
        got = _json.loads(r.stdout.decode())
        _PRISTINE = {}
        for (name, cls, attr) in FIELDS:
            g = got['%s|%s' % (cls.__name__, attr)]
            if g[0] == 'other':
                raise RuntimeError('class attribute %s has an unexpected initial value %s' % (name, g[1]))
            _PRISTINE[(cls, attr)] = _ABSENT if g[0] == 'absent' else g[1]
    for (cls, attr), v in _PRISTINE.items():
        if v is _ABSENT:
            if attr in cls.__dict__:
                delattr(cls, attr)
        else:
            setattr(cls, attr, v)

def hexs(s):
    if not isinstance(s, str): return 'notstr:%s' % type(s).__name__     # a class attribute that was never set
    return binascii.hexlify(s.encode('utf-8')).decode()

def show_oval(v):
    if v is None: return 'N'
    if isinstance(v, bool): return 'B1' if v else 'B0'
    if isinstance(v, int): return 'I%d' % v
    if isinstance(v, str): return 'S' + hexs(v)
    return '<%s>' % type(v).__name__

def show_attr(name, cls, attr):
    v = cls.__dict__.get(attr, _ABSENT)
    if v is _ABSENT: return '<unset>'
    if name.endswith('.epsilon') and v is not None: return 'V%d' % v._value
    if name == 'Rational._dpr' and v is not None: return '%d/%d' % (v.numerator, v.denominator)
    if isinstance(v, float): return '<float>'
    return show_oval(v)

def show_dict(d, sh=show_oval):
    return ';'.join('%s=%s' % (k, sh(d[k])) for k in sorted(d))

def show_store(o):
    keys = sorted(set(KNOWN_KEYS) | set(o.cmd_options) | set(o.file_options) | set(o.default) | set(o.force))
    rec = o.record()
    out = ['cmd: ' + show_dict(rec['cmd']), 'file: ' + show_dict(rec['file_options']),
           'default: ' + show_dict(rec['default']), 'force: ' + show_dict(rec['force']),
           'allowed: ' + show_dict(rec['allowed'], lambda t: '(' + ','.join(show_oval(x) for x in t) + ')'),
           'getopt: ' + ';'.join('%s=%s' % (k, show_oval(o.getopt(k))) for k in keys),
           'unused: ' + ','.join(o.unused()), 'overrides: ' + ','.join(o.overrides()),
           'effective: ' + show_dict(rec['options'])]
    return out

class FakeElection:
    "what Rule.__init__/options() touch on the Election object"
    def __init__(self, options):
        self.options = options

def build_options(cfg):
    o = Options(dict(cfg['cmd']))
    if cfg.get('strs') is not None:
        o.update(o.parse(list(cfg['strs'])), file_options=True)
    else:
        o.update(dict(cfg['file'] or {}), file_options=True)
    return o

class Setup:
    pass

def election_setup(cfg):
    """Election.__init__ lines `options = Options(options)` .. `self.V = values.ArithmeticClass(self.options)`;
    returns (exception or None, options object or None, E)"""
    from droop.election import ElectionError
    E = None
    o = None
    try:
        o = Options(dict(cfg['cmd']))
        if cfg.get('strs') is not None:
            o.update(o.parse(list(cfg['strs'])), file_options=True)
        else:
            o.update(dict(cfg['file'] or {}), file_options=True)
        E = FakeElection(o)
        rulename = o.getopt('rule')
        if rulename is None:
            raise ElectionError('no election rule specified')
        Rule = droop.electionRule(rulename)
        if Rule is None:
            raise ElectionError('unknown election rule: %s' % rulename)
        E.rule = Rule(E)
        E.rule.options()
        E.V = dvalues.ArithmeticClass(o)
        return None, o, E
    except Exception as ex:  # the exception class is the observable
        return ex, o, E

RULE_MODULE = {'wigm': 'wigm', 'wigm_prf': 'wigm_prf', 'cfer': 'cfer', 'scotland': 'scotland', 'mpls': 'mpls',
               'meek': 'meek', 'meek_prf': 'meek_prf', 'qpq': 'qpq'}

def show_rule(rule):
    mod = type(rule).__module__.split('.')[-1]
    def a(n):
        v = getattr(rule, n, _ABSENT)
        return '-' if v is _ABSENT else show_oval(v)
    return 'rule: cls=%s name=%s integer_quota=%s defeat_batch=%s warren=%s omega10=%s' % (
        mod, a('name'), a('integer_quota'), a('defeat_batch'), a('warren'), a('omega10'))

def dirty(V):
    "make some comparisons so that Guarded's maxDiff/minDiff move (an election would)"
    try:
        a = V(1) / V(3); b = V(2) / V(3)
        a == a + a - a; a < b; b > a; a == b
        if V is Guarded:
            V(1, True) == V(0, True)
    except Exception:
        pass

def impl_setup(case, dirty_history=False, with_history=True):
    """canonical text (list of lines) of a setup case on the implementation"""
    reset_classes()
    lines = []
    if with_history:
        for i, h in enumerate(case['hist']):
            ex, o, E = election_setup(h)
            if ex is None:
                lines.append('hist %d: ok %s' % (i, E.V.__name__))
                if dirty_history:
                    dirty(E.V)
                    for num, den in case['probes']:
                        try: str(E.V(num) / E.V(den))
                        except Exception: pass
                    E.V.report()
            else:
                lines.append('hist %d: exn %s' % (i, type(ex).__name__))
    ex, o, E = election_setup(case['cfg'])
    lines.append('outcome: ' + ('ok' if ex is None else 'exn ' + type(ex).__name__))
    lines += show_store(o)
    if ex is None:
        V = E.V
        lines.append(show_rule(E.rule))
        eps = '-'
        if not V.exact:
            eps = ('V%d' % V.epsilon._value) if getattr(V.epsilon, '_value', None) is not None else 'unset:%r' % (V.epsilon,)
        lines.append('arith: cls=%s name=%s info=%s exact=%s quasi_exact=%s epsilon=%s' % (
            V.__name__, hexs(V.name), hexs(V.info), show_oval(V.exact), show_oval(V.quasi_exact), eps))
        read = []
        for (name, cls, attr) in FIELDS:
            if cls is not V: continue
            if name == 'Guarded.__scaledg' and not (Guarded.display > Guarded.precision): continue
            if name == 'Guarded.epsilon' and Guarded.exact: continue
            read.append('%s=%s' % (name, show_attr(name, cls, attr)))
        lines.append('read: ' + ';'.join(read))
        for num, den in case['probes']:
            try:
                r = V(num) / V(den)
                raw = ('%d/%d' % (r.numerator, r.denominator)) if V is Rational else '%d' % r._value
                try:
                    s = str(r)
                except Exception as e2:
                    s = 'exn ' + type(e2).__name__
                lines.append('probe %d/%d: raw=%s str=%s' % (num, den, raw, s))
            except Exception as e1:
                lines.append('probe %d/%d: exn %s' % (num, den, type(e1).__name__))
        try:
            lines.append('report: ' + V.report())
        except Exception as e3:      # a class that was never initialised for this election: the exception class is the observable
            lines.append('report: exn ' + type(e3).__name__)
    lines.append('state: ' + ';'.join('%s=%s' % (name, show_attr(name, cls, attr)) for (name, cls, attr) in FIELDS))
    consts = [(c.__name__, a) for (c, a, want) in CONSTANTS if c.__dict__.get(a, _ABSENT) != want]
    if consts:
        lines.append('CONSTANT-CHANGED: %r' % consts)
    return '\n'.join(lines)

def split_text(text):
    """(history-independent part, history-dependent part)"""
    a, b = [], []
    for l in text.split('\n'):
        (b if l.startswith('hist ') or l.startswith('state: ') else a).append(l)
    return '\n'.join(a), '\n'.join(b)

# ------------------------------------------------------------------ other case kinds
def impl_parse(strs):
    try:
        return 'ok ' + show_dict(Options.parse(list(strs)))
    except Exception as ex:
        return 'exn ' + type(ex).__name__

def impl_int(v):
    n = Options.normalize(v)
    try:
        i = '%d' % int(v)
    except Exception as ex:
        i = 'exn ' + type(ex).__name__
    return 'normalize=%s int=%s str=%s' % (show_oval(n), i, hexs(str(v)))

def impl_eval(case):
    if case['kind'] == 'setup': return impl_setup(case)
    if case['kind'] == 'parse': return impl_parse(case['strs'])
    if case['kind'] == 'int': return impl_int(case['value'])
    raise ValueError(case['kind'])

# ------------------------------------------------------------------ tokens
def tok_value(v):
    if v is None: return [tok_i(0)]
    if isinstance(v, bool): return [tok_i(1), tok_i(int(v))]
    if isinstance(v, int): return [tok_i(2), tok_i(v)]
    return [tok_i(3), tok_s(v)]

def tok_dict(d):
    t = [tok_i(len(d))]
    for k, v in d.items():
        t += [tok_s(k)] + tok_value(v)
    return t

def tok_config(cfg):
    t = tok_dict(cfg['cmd'])
    if cfg.get('strs') is not None:
        t += [tok_i(1), tok_i(len(cfg['strs']))] + [tok_s(s) for s in cfg['strs']]
    else:
        t += [tok_i(0)] + tok_dict(cfg['file'] or {})
    return t

def to_tokens(case):
    t = [tok_s('options'), tok_s(case['kind'])]
    if case['kind'] == 'setup':
        t += [tok_i(len(case['probes']))]
        for n, d in case['probes']:
            t += [tok_i(n), tok_i(d)]
        t += [tok_i(len(case['hist']))]
        for h in case['hist']:
            t += tok_config(h)
        t += tok_config(case['cfg'])
    elif case['kind'] == 'parse':
        t += [tok_i(len(case['strs']))] + [tok_s(s) for s in case['strs']]
    else:
        t += tok_value(case['value'])
    return t

# ------------------------------------------------------------------ generators
# Envelope (stated in the evidence): ASCII option names and values; digit strings are ASCII digits
# (Unicode digits, which \d and int() also accept, are not generated); |int| small enough that
# 10 ** n stays cheap; no str longer than 12 characters (CPython's 4300-digit int() limit is out of reach).
ODD_STRS = ['abc', '-1', '07', 'True', 'false', '', ' 5', '5 ', '+3', '1_0', '1__0', '_1', '12\n', '12\n\n', 'guarded',
            'fixed', 'integer', 'rational', 'none', 'zero', 'safe', 'None', '0', '00', '-0', '9', '1e2', '0x10', '3.0']

def gen_value(rng, key=None):
    k = rng.random()
    if key == 'arithmetic' and k < 0.75:
        return rng.choice(['fixed', 'guarded', 'rational', 'integer', 'fixed', 'guarded', 'quadruple', 'Fixed'])
    if key in ('precision', 'guard', 'display', 'omega') and k < 0.7:
        r = rng.random()
        if r < 0.6: return rng.choice([0, 1, 2, 3, 4, 5, 6, 9, 12, 18, 21])
        if r < 0.8: return str(rng.choice([0, 1, 2, 4, 9, 15]))
        return rng.randint(0, 30)
    if key == 'integer_quota' and k < 0.6:
        return rng.choice([True, False, 1, 0, 'true', 'yes', 2])
    if key == 'defeat_batch' and k < 0.6:
        return rng.choice(['none', 'zero', 'safe', 'NONE', 'batch'])
    if key == 'rule' and k < 0.85:
        return rng.choice(RULES)
    r = rng.random()
    if r < 0.12: return None
    if r < 0.27: return rng.choice([True, False])
    if r < 0.5: return rng.choice([0, 1, 2, 5, 9, -1, -3, 30, rng.randint(-5, 40)])
    if r < 0.65: return str(rng.randint(0, 20))
    return rng.choice(ODD_STRS)

UNKNOWN_KEYS = ['foo', 'Precision', 'epsilon', 'quota', 'batch', 'a-b', 'a_b', 'ab', 'A', 'report', 'dump', 'json', 'path', 'nseats']

def gen_layer(rng, density):
    d = {}
    keys = [k for k in KNOWN_KEYS if k not in ('rule', 'path')]
    rng.shuffle(keys)
    for k in keys:
        if rng.random() < density:
            d[k] = gen_value(rng, k)
    for _ in range(rng.choice([0, 0, 1, 2])):
        d[rng.choice(UNKNOWN_KEYS)] = gen_value(rng)
    return d

def render_opt_strings(rng, d):
    """option strings as they appear in a ballot file, for parse()"""
    out = []
    for k, v in d.items():
        if k == 'arithmetic' and isinstance(v, str) and rng.random() < 0.5:
            out.append(v)           # bare arithmetic name (or a path if it is not one)
        elif v is True and rng.random() < 0.5:
            out.append('%s=%s' % (k, rng.choice(['true', 'True', 'YES', 'yes'])))
        elif v is False:
            out.append('%s=%s' % (k, rng.choice(['false', 'No', 'FALSE'])))
        elif v is None:
            out.append('%s=' % k)
        else:
            out.append('%s=%s' % (k, v))
    if rng.random() < 0.1: out.append(rng.choice(['report', 'dump', 'json', 'x.blt', 'a=b=c', '=', '=x']))
    if rng.random() < 0.05: out += ['one.blt', 'two.blt']
    return out

def gen_config(rng, rule=None, mode=None):
    mode = mode or rng.choice(['plain', 'plain', 'sane', 'sane', 'wild'])
    rule = rule or rng.choice(RULES)
    if mode == 'sane':
        # configurations an election would accept: used for histories and for the accepted side of C17
        cmd, file = {}, {}
        if rule in ('wigm', 'meek', 'warren'):
            ar = rng.choice(['fixed', 'guarded', 'rational', 'integer', None] if rule == 'wigm' else ['fixed', 'guarded', 'rational', None])
            tgt = rng.choice([cmd, file])
            if ar: tgt['arithmetic'] = ar
            if rng.random() < 0.7: rng.choice([cmd, file])['precision'] = rng.choice([0, 1, 2, 4, 6, 9, 12])
            if rng.random() < 0.6: rng.choice([cmd, file])['guard'] = rng.choice([0, 0, 1, 3, 9])
            if rng.random() < 0.6: rng.choice([cmd, file])['display'] = rng.choice([0, 2, 4, 9, 14, 25])
            if rng.random() < 0.3: rng.choice([cmd, file])['omega'] = rng.choice([3, 6, 10])
        else:
            cmd, file = gen_layer(rng, 0.3), gen_layer(rng, 0.3)
    elif mode == 'gtest':
        # Guarded under test, mostly with display <= precision and guard > 0: the configuration in which
        # __scaledg and epsilon are *not* assigned and a stale value from an earlier election would survive
        rule = rng.choice(['wigm', 'meek', 'warren'])
        p = rng.choice([1, 2, 4, 6, 9])
        cmd = dict(arithmetic='guarded', precision=p, guard=rng.choice([1, 2, p, 0]), display=rng.choice([p, p, 0, p - 1, p + 1]))
        file = {}
        if rng.random() < 0.3: file['display'] = cmd.pop('display')
        if rng.random() < 0.3: del cmd['guard']
    elif mode == 'plain':
        cmd, file = gen_layer(rng, 0.35), gen_layer(rng, 0.35)
    else:
        cmd, file = gen_layer(rng, 0.7), gen_layer(rng, 0.7)
    r = rng.random()
    if r < 0.6: cmd['rule'] = rule
    elif r < 0.9: file['rule'] = rule
    elif r < 0.95: cmd['rule'] = rule; file['rule'] = rng.choice(RULES)
    elif r < 0.98: cmd['rule'] = gen_value(rng)
    cfg = dict(cmd=cmd, file=file, strs=None, rule=rule, mode=mode)
    if rng.random() < 0.25:
        cfg['strs'] = render_opt_strings(rng, file)
        cfg['file'] = None
    return cfg

def gen_history_element(rng):
    """an earlier election: mostly accepted ones, incl. Guarded with display > precision (sets
    __scaledg), guard = 0 (sets epsilon), and some that fail half-way through initialize()"""
    k = rng.random()
    if k < 0.25:
        p = rng.choice([0, 1, 2, 4, 9]); g = rng.choice([0, 0, 1, 4])
        d = rng.choice([p + 1, p + g, p + g + 3, p, 0])
        return dict(cmd=dict(rule=rng.choice(['wigm', 'meek', 'warren']), arithmetic='guarded', precision=p, guard=g, display=d),
                    file={}, strs=None, rule='wigm', mode='hist-guarded')
    if k < 0.35:
        return dict(cmd=dict(rule='wigm', arithmetic=rng.choice(['fixed', 'integer']), precision=rng.choice([0, 3, 7]),
                             display=rng.choice([0, 2, 9, -1])), file={}, strs=None, rule='wigm', mode='hist-fixed')
    if k < 0.45:
        return dict(cmd=dict(rule='wigm', arithmetic='rational', display=rng.choice([0, 3, 12, 20, True, -2, 'x'])),
                    file={}, strs=None, rule='wigm', mode='hist-rational')
    if k < 0.55:
        # fails after assigning some attributes
        return dict(cmd=dict(rule='wigm', arithmetic='guarded', precision=rng.choice([3, 5]), guard=rng.choice(['x', -1, True, None]),
                             display=7), file={}, strs=None, rule='wigm', mode='hist-partial')
    return gen_config(rng, mode=rng.choice(['sane', 'sane', 'plain']))

PROBES = [(-1, 2), (1, 3), (12345678, 1000), (0, 1), (-7, 3), (5, 1), (2, 3), (-12345678, 1000)]

def gen_setup_cases(seed, n, label='setup', hist=(0, 0), rules=None, modes=None):
    rng = rng_for(seed, 'options', label, hist, rules)
    out = []
    for i in range(n):
        rule = rng.choice(rules) if rules else None
        cfg = gen_config(rng, rule=rule, mode=(rng.choice(modes) if modes else None))
        nh = rng.randint(hist[0], hist[1])
        h = [gen_history_element(rng) for _ in range(nh)]
        if nh and rng.random() < 0.15:
            h[rng.randrange(nh)] = dict(cfg)      # the same election counted before
        probes = rng.sample(PROBES, 3)
        out.append(dict(kind='setup', probes=probes, hist=h, cfg=cfg))
    return out

def gen_parse_cases(seed, n):
    rng = rng_for(seed, 'options', 'parse')
    words = ['fixed', 'integer', 'rational', 'guarded', 'meek', 'wigm', 'qpq', 'report', 'dump', 'json', 'x.blt', 'y.blt', '',
             'precision=4', 'precision=abc', 'display=07', 'integer_quota=true', 'integer_quota=YES', 'integer_quota=No',
             'defeat_batch=zero', 'a=b=c', '=', '=x', 'x=', 'arithmetic=fixed', 'rule=meek', 'omega=False', 'Fixed', 'warren',
             'wigm-prf-batch', 'cfer-batch', 'k=TRUE', 'k=nO', 'k=yes ', 'precision=12']
    return [dict(kind='parse', strs=[rng.choice(words) for _ in range(rng.randint(0, 5))]) for _ in range(n)]

def gen_int_cases(seed, n):
    rng = rng_for(seed, 'options', 'int')
    out = []
    alphabet = '0123456789 _+-a\n\t'
    for i in range(n):
        k = rng.random()
        if k < 0.3: v = rng.choice(ODD_STRS)
        elif k < 0.7: v = ''.join(rng.choice(alphabet) for _ in range(rng.randint(0, 5)))
        elif k < 0.8: v = rng.randint(-50, 50)
        elif k < 0.9: v = rng.choice([True, False, None])
        else: v = str(rng.randint(0, 10 ** rng.randint(1, 12)))
        out.append(dict(kind='int', value=v))
    return out

# ------------------------------------------------------------------ oracles on the implementation
_MISSING = object()

def py_same(a, b):
    "same Python value including its type (True is not 1 here)"
    return type(a) is type(b) and a == b

def oracle_precedence(cfg):
    """C17, first half, stated directly on the implementation: after the election's option handling
    (whether or not it raised), for every key the effective value is the first of force / cmd / file /
    default that has the key; record() reports exactly the four layers and that effective value;
    unused() and overrides() name what they should.  Returns a list of failures (empty = holds)."""
    reset_classes()
    ex, o, E = election_setup(cfg)
    fails = []
    rec = o.record()
    layers = [rec['force'], rec['cmd'], rec['file_options'], rec['default']]
    if not (rec['force'] == o.force and rec['cmd'] == o.cmd_options and rec['file_options'] == o.file_options
            and rec['default'] == o.default and rec['allowed'] == o.allowed):
        fails.append('record() layers differ from the store')
    keys = set(KNOWN_KEYS) | set(UNKNOWN_KEYS)
    for l in layers: keys |= set(l)
    for k in sorted(keys):
        want = None
        for l in layers:
            if k in l:
                want = l[k]; break
        got = o.getopt(k)
        if not py_same(got, want):
            fails.append('getopt(%r) = %r, first layer value = %r' % (k, got, want))
        present = any(k in l for l in layers)
        if present != (k in rec['options']):
            fails.append('record options has key %r: %r, some layer has it: %r' % (k, k in rec['options'], present))
        elif present and not py_same(rec['options'][k], want):
            fails.append('record options[%r] = %r, expected %r' % (k, rec['options'][k], want))
    # the arithmetic the election runs on is the one the effective options name: class, precision, guard
    V = getattr(E, 'V', None)
    if ex is None and V is not None:
        eff_arith = o.getopt('arithmetic')
        if isinstance(eff_arith, str) and getattr(V, 'name', None) not in (None, eff_arith) and not (eff_arith == 'fixed' and V.name == 'integer' and str(o.getopt('precision')) == '0'):
            fails.append('effective arithmetic %r but the class in use is %r' % (eff_arith, V.name))
        for key in ('precision', 'guard'):
            eff = o.getopt(key)
            have = getattr(V, key, None)
            if have is not None and eff is not None and V.name in ('fixed', 'integer', 'guarded'):
                try:
                    if int(eff) != int(have):
                        fails.append('effective %s=%r but the arithmetic class runs with %s=%r' % (key, eff, key, have))
                except (TypeError, ValueError):
                    pass
    supplied = dict(rec['file_options']); supplied.update(rec['cmd'])
    want_unused = sorted(k for k in supplied if k not in ('rule', 'path') and k not in rec['default'])
    if o.unused() != want_unused:
        fails.append('unused() = %r, expected %r' % (o.unused(), want_unused))
    want_over = sorted(k for k in rec['force'] if k in supplied and supplied[k] != rec['force'][k])
    if o.overrides() != want_over:
        fails.append('overrides() = %r, expected %r' % (o.overrides(), want_over))
    # the caller's layers are reported as supplied (after normalisation of digit strings)
    for name, given in (('cmd', cfg['cmd']), ('file_options', cfg['file'] if cfg.get('strs') is None else None)):
        if given is None: continue
        for k, v in given.items():
            nv = int(v) if (isinstance(v, str) and v.isascii() and v.rstrip('\n').isdigit() and len(v) - len(v.rstrip('\n')) <= 1) else v
            if not py_same(rec[name].get(k, _MISSING), nv):
                fails.append('record %s[%r] = %r, supplied %r' % (name, k, rec[name].get(k, _MISSING), v))
    return fails

IMMUNE_KEYS = ['arithmetic', 'precision', 'guard', 'display', 'omega', 'integer_quota', 'defeat_batch']

def config_text(case_text):
    "the lines describing the effective configuration: outcome, rule parameters, arithmetic, attributes read, probes, report"
    keep = []
    on = False
    for l in case_text.split('\n'):
        if l.startswith('outcome: '): keep.append(l)
        if l.startswith('rule: '): on = True
        if l.startswith('state: '): on = False
        if on: keep.append(l)
    return '\n'.join(keep)

def oracle_immunity(case):
    """C17, second half at configuration level: a statutory rule given any cmd/file options ends up with the
    configuration it has with no options at all (and does not raise)."""
    cfg = case['cfg']
    rule = cfg['rule']
    base = dict(kind='setup', probes=case['probes'], hist=[], cfg=dict(cmd=dict(rule=rule), file={}, strs=None, rule=rule))
    a = config_text(impl_setup(case, with_history=False))
    b = config_text(impl_setup(base))
    return (a == b and a.startswith('outcome: ok')), a, b
