"""Shared harness plumbing: locating /repo's droop, talking to the extracted model,
deterministic randomness, evidence and replay files."""
import os, sys, json, subprocess, hashlib, random, time, binascii

VERIF = os.path.dirname(os.path.dirname(os.path.abspath(__file__)))
REPO = os.environ.get('DROOP_REPO', '/repo')
WORK = os.path.join(VERIF, 'work')
os.makedirs(WORK, exist_ok=True)

def import_droop():
    """import the package from /repo's working tree (never the copy installed in the venv)"""
    if REPO not in sys.path:
        sys.path.insert(0, REPO)
    for k in list(sys.modules):
        if k == 'droop' or k.startswith('droop.'):
            if not getattr(sys.modules[k], '__file__', '').startswith(REPO + '/droop'):
                del sys.modules[k]
    import droop
    assert os.path.realpath(droop.__file__).startswith(os.path.realpath(REPO) + '/droop'), droop.__file__
    return droop

def seed_from_env(default=20260930):
    try:
        return int(os.environ.get('VERIF_SEED', default))
    except ValueError:
        return default

def rng_for(seed, *labels):
    h = hashlib.sha256(("%d|%s" % (seed, "|".join(str(x) for x in labels))).encode()).digest()
    return random.Random(int.from_bytes(h[:8], 'big'))

# ------------------------------------------------------------------ model process
def tok_i(n):
    return "i%d" % n

def tok_s(s):
    if isinstance(s, str):
        s = s.encode('utf-8')
    return "s" + binascii.hexlify(s).decode()

class Model:
    """line-protocol client for extract/model_fast (or model_ref)"""
    def __init__(self, which='fast'):
        self.path = os.path.join(VERIF, 'extract', 'model_' + which)
        self.p = None

    def start(self):
        env = dict(os.environ)
        self.p = subprocess.Popen(['bash', '-c', 'ulimit -s unlimited 2>/dev/null; exec "%s"' % self.path],
                                  stdin=subprocess.PIPE, stdout=subprocess.PIPE, env=env)

    def run(self, toks):
        if self.p is None or self.p.poll() is not None:
            self.start()
        line = " ".join(toks) + "\n"
        try:
            self.p.stdin.write(line.encode())
            self.p.stdin.flush()
        except BrokenPipeError:
            self.p = None
            return "MODEL-CRASH"
        out = []
        while True:
            l = self.p.stdout.readline()
            if not l:
                self.p = None
                return "MODEL-CRASH\n" + b"".join(out).decode('utf-8', 'replace')
            if l == b"=== END\n":
                break
            out.append(l)
        s = b"".join(out).decode('utf-8', 'replace')
        return s[:-1] if s.endswith("\n") else s

    def run_timeout(self, toks, timeout):
        """one case with a wall-clock budget; the process is killed on overrun"""
        import select
        if self.p is None or self.p.poll() is not None:
            self.start()
        try:
            self.p.stdin.write((" ".join(toks) + "\n").encode())
            self.p.stdin.flush()
        except BrokenPipeError:
            self.p = None
            return "MODEL-CRASH"
        buf = b""
        deadline = time.time() + timeout
        fd = self.p.stdout.fileno()
        while True:
            left = deadline - time.time()
            if left <= 0:
                self.p.kill(); self.p = None
                return "MODEL-TIMEOUT"
            r, _, _ = select.select([fd], [], [], left)
            if not r:
                continue
            chunk = os.read(fd, 1 << 16)
            if not chunk:
                self.p = None
                return "MODEL-CRASH\n" + buf.decode('utf-8', 'replace')
            buf += chunk
            if buf.endswith(b"\n=== END\n"):
                return buf[:-len(b"\n=== END\n")].decode('utf-8', 'replace')

    def run_many(self, cases):
        """batch: write all cases, read all answers (much faster than ping-pong)"""
        if not cases:
            return []
        data = "".join(" ".join(t) + "\n" for t in cases).encode()
        r = subprocess.run(['bash', '-c', 'ulimit -s unlimited 2>/dev/null; exec "%s"' % self.path],
                           input=data, stdout=subprocess.PIPE)
        parts = r.stdout.decode('utf-8', 'replace').split("\n=== END\n")
        if parts and parts[-1] == "":
            parts.pop()
        while len(parts) < len(cases):
            parts.append("MODEL-CRASH")
        return parts

    def close(self):
        if self.p is not None:
            try:
                self.p.stdin.close()
                self.p.wait(timeout=5)
            except Exception:
                self.p.kill()
            self.p = None

# ------------------------------------------------------------------ evidence / replays
def write_json(path, obj):
    os.makedirs(os.path.dirname(path), exist_ok=True)
    tmp = path + ".tmp"
    with open(tmp, 'w') as f:
        json.dump(obj, f, indent=1, sort_keys=True, default=str)
    os.replace(tmp, path)

def replay_path(pid, payload):
    h = hashlib.sha256(json.dumps(payload, sort_keys=True, default=str).encode()).hexdigest()[:12]
    return os.path.join(VERIF, 'replays', "%s-%s.json" % (pid, h))

def load_known_findings():
    p = os.path.join(VERIF, 'known_findings.json')
    if not os.path.exists(p):
        return []
    return json.load(open(p))['findings']
