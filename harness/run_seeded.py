#!/usr/bin/env python3
"""Run the registered checks against a seeded change without touching /repo:
   a scratch worktree of /repo gets the patch, the checks run with DROOP_REPO pointing at it.
   usage: run_seeded.py <seeded-dir> [--verif <copy of /verif to run in>] [--props C01,C05] [--all]"""
import sys, os, json, subprocess, shutil, argparse, time, re

def sh(cmd, **kw):
    return subprocess.run(cmd, shell=True, stdout=subprocess.PIPE, stderr=subprocess.STDOUT, **kw)

def main():
    ap = argparse.ArgumentParser()
    ap.add_argument('dir')
    ap.add_argument('--verif', default='/verif')
    ap.add_argument('--props', default='')
    ap.add_argument('--all', action='store_true')
    ap.add_argument('--skip-tests', action='store_true')
    ap.add_argument('--out', default='result.json')
    a = ap.parse_args()
    d = os.path.abspath(a.dir)
    meta = json.load(open(os.path.join(d, 'meta.json')))
    prop = meta['property']
    wt = '/tmp/seedrun/wt_%d' % os.getpid()
    os.makedirs('/tmp/seedrun', exist_ok=True)
    sh('git -C /repo worktree remove --force %s' % wt)
    r = sh('git -C /repo worktree add -f %s HEAD' % wt)
    res = dict(dir=d, property=prop, what=meta.get('what'), needs=meta.get('needs'))
    try:
        ap_ = sh('git -C %s apply %s' % (wt, os.path.join(d, 'patch.diff')))
        if ap_.returncode != 0:
            # written against an earlier commit of /repo (before a later fix: touched the same lines): use that commit
            m_ = re.search(r'\b([0-9a-f]{7,40})\b', str((meta.get('confirmed') or {}).get('applies_on', '')) + ' ' + str(meta.get('base', '')))
            if m_:
                sh('git -C /repo worktree remove --force %s' % wt)
                sh('git -C /repo worktree add -f %s %s' % (wt, m_.group(1)))
                ap_ = sh('git -C %s apply %s' % (wt, os.path.join(d, 'patch.diff')))
                res['applied_on'] = m_.group(1)
        res['applies'] = ap_.returncode == 0
        if not res['applies']:
            res['apply_output'] = ap_.stdout.decode()[-500:]
            return res
        demo = os.path.join(d, 'demo.py')
        env = "PYTHONHASHSEED=0 PYTHONDONTWRITEBYTECODE=1"
        p0 = sh('cd /tmp && %s PYTHONPATH=/repo timeout 300 /venv/bin/python %s' % (env, demo))
        p1 = sh('cd /tmp && %s PYTHONPATH=%s timeout 300 /venv/bin/python %s' % (env, wt, demo))
        res['demo_pristine_exit'] = p0.returncode; res['demo_patched_exit'] = p1.returncode
        res['demo_patched_output'] = p1.stdout.decode()[-600:]
        if not a.skip_tests:
            t = sh('cd %s && PYTHONPATH=%s timeout 1200 /venv/bin/python -m pytest -q -p no:cacheprovider --timeout=900 2>&1 | tail -3' % (wt, wt))
            out = t.stdout.decode()
            res['tests'] = out.strip().splitlines()[-1] if out.strip() else ''
            res['tests_pass'] = bool(re.search(r'\b207 passed', out)) and 'failed' not in out
            sh('git -C %s checkout -- test; git -C %s clean -fdq test' % (wt, wt))
        props = [p for p in a.props.split(',') if p] or [prop]
        if a.all:
            m = json.load(open(os.path.join(a.verif, 'MANIFEST.json')))
            props = [prop] + [c['property_id'] for c in m['checks'] if c['property_id'] != prop]
        res['checks'] = {}
        for p in props:
            t0 = time.time()
            c = sh('cd %s && DROOP_REPO=%s VERIF_TIER=quick timeout 1500 ./check %s --tier quick' % (a.verif, wt, p))
            out = c.stdout.decode()
            viol = [l for l in out.splitlines() if l.startswith('VIOLATION')]
            res['checks'][p] = dict(exit=c.returncode, violations=len(viol),
                                    with_input=len([l for l in viol if 'no-failing-input-found' not in l]),
                                    tail=out.strip().splitlines()[-1] if out.strip() else '', wall=round(time.time() - t0, 1))
            # first replay for the record
            if viol and 'first_replay' not in res:
                mm = re.search(r'replay=(\S+)', viol[0])
                if mm and os.path.exists(mm.group(1)):
                    try:
                        rp = json.load(open(mm.group(1)))
                        res['first_replay'] = {k: (v if len(str(v)) < 700 else str(v)[:700]) for k, v in rp.items() if k in ('what', 'blt', 'options', 'case', 'detail', 'kind', 'broken')}
                    except Exception:
                        pass
            sh('rm -f %s/replays/*.json' % a.verif)
        res['caught_by'] = [p for p, v in res['checks'].items() if v['exit'] != 0]
        res['caught'] = prop in res['caught_by']
        return res
    finally:
        sh('git -C /repo worktree remove --force %s' % wt)
        sh('git -C /repo worktree prune')
        # restore the build of the verif copy to the real repository
        pass   # the next run rebuilds against its own tree; run ./build.sh by hand to restore

if __name__ == '__main__':
    r = main()
    print(json.dumps(r, indent=1))
    out = 'result.json'
    if '--out' in sys.argv: out = sys.argv[sys.argv.index('--out') + 1]
    json.dump(r, open(os.path.join(os.path.abspath(sys.argv[1]), out), 'w'), indent=1)
