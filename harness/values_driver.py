"""Correspondence driver `values`: the same operation on the same operands in
droop.values.{fixed,guarded,rational} (implementation, /repo) and in the
extracted Coq model; plus the Fraction oracles used for C12/C13/C14."""
import sys, itertools
from fractions import Fraction
from common import import_droop, tok_i, tok_s, rng_for

OPS = {0: 'init', 1: 'add', 2: 'sub', 3: 'neg', 4: 'pos', 5: 'abs', 6: 'bool', 7: 'mul_op', 8: 'floordiv',
       9: 'truediv', 10: 'kmul', 11: 'kdiv', 12: 'kmuldiv', 13: 'eq', 14: 'ne', 15: 'lt', 16: 'le', 17: 'gt',
       18: 'ge', 19: 'cmp', 20: 'min', 21: 'str', 22: 'hash'}
RNDS = {0: 'down', 1: 'up', 2: None, 3: 'sideways'}
BINOPS = {1: '__add__', 2: '__sub__', 7: '__mul__', 8: '__floordiv__', 9: '__truediv__', 13: '__eq__', 14: '__ne__',
          15: '__lt__', 16: '__le__', 17: '__gt__', 18: '__ge__', 19: '__cmp__'}
UNOPS = {3: '__neg__', 4: '__pos__', 5: '__abs__', 6: '__bool__', 22: '__hash__'}

def setup_class(cls_id, p, g, d, integer=None):
    import_droop()
    from droop.options import Options
    from droop.values import fixed, guarded, rational
    if cls_id == 0 and integer is not None:
        # arithmetic=integer: the zero-place case whatever precision the caller asks for (integer = ('none',) or
        # ('precision', N)); the case's p is 0
        od = {'arithmetic': 'integer', 'display': d}
        if integer[0] == 'precision':
            od['precision'] = integer[1]
        fixed.Fixed.initialize(Options(od))
        return fixed.Fixed
    if cls_id == 0:
        o = Options({'arithmetic': 'fixed', 'precision': p, 'display': d})
        fixed.Fixed.initialize(o)
        return fixed.Fixed
    if cls_id == 1:
        o = Options({'arithmetic': 'guarded', 'precision': p, 'guard': g, 'display': d})
        guarded.Guarded.initialize(o)
        return guarded.Guarded
    o = Options({'arithmetic': 'rational', 'display': d})
    rational.Rational.initialize(o)
    return rational.Rational

def show(V, r):
    if isinstance(r, bool):
        return "bool %d" % int(r)
    if isinstance(r, int):
        return "ok %d" % r
    if isinstance(r, str):
        return "str " + r
    if isinstance(r, Fraction):
        if type(r).__name__ != 'Rational':
            return "ok-escaped-to-Fraction %d/%d" % (r.numerator, r.denominator)
        return "ok %d/%d" % (r.numerator, r.denominator)
    if isinstance(r, V):
        return "ok %d" % r._value
    return "other %r" % (r,)

def impl_eval(case):
    """case = dict(cls, p, g, d, op, rnd, A, B, C, rest) ; operands are ('i', n) | ('v', raw) | ('q', num, den)"""
    V = setup_class(case['cls'], case['p'], case['g'], case['d'], integer=case.get('integer'))
    def mk(o):
        if o[0] == 'i': return o[1]
        if o[0] == 'v': return V(o[1], True)
        return V(o[1], o[2])
    op = case['op']
    try:
        if case['cls'] == 2:
            a, b, c = mk(case['A']), mk(case['B']), mk(case['C'])
        else:
            a = mk(case['A']) if op in (0, 10, 11, 12) else V(case['A'][1], True)
            b, c = mk(case['B']), mk(case['C'])
        rnd = RNDS[case['rnd']]
        if op == 0: r = V(a)
        elif op in BINOPS: r = getattr(a, BINOPS[op])(b)
        elif op in UNOPS: r = getattr(a, UNOPS[op])()
        elif op == 10: r = V.mul(a, b, round=rnd)
        elif op == 11: r = V.div(a, b, round=rnd)
        elif op == 12: r = V.muldiv(a, b, c, round=rnd)
        elif op == 20: r = V.min([V(x, True) for x in case['rest']])
        elif op == 21: r = str(a)
        else: return "badop"
        return show(V, r)
    except Exception as ex:  # the exception class is the observable
        return "exn " + type(ex).__name__

def to_tokens(case):
    t = [tok_s("values"), tok_i(case['cls'])]
    if case['cls'] == 0:
        t += [tok_i(case['p']), tok_i(case['d'])]
    elif case['cls'] == 1:
        t += [tok_i(case['p']), tok_i(case['g']), tok_i(case['d']), tok_i(0)]
    else:
        t += [tok_i(case['d'])]
    t += [tok_i(case['op']), tok_i(case['rnd'])]
    for k in 'ABC':
        o = case[k]
        if case['cls'] == 2:
            t += [tok_i(o[1]), tok_i(o[2])]
        else:
            t += [tok_i(0 if o[0] == 'i' else 1), tok_i(o[1])]
    t += [tok_i(x) for x in case.get('rest', [])]
    return t

# ------------------------------------------------------------------ generators
def interesting_ints(rng, scale, geps=None):
    base = [0, 1, -1, 2, -2, 3, 7, -7, scale, -scale, scale - 1, scale + 1, 2 * scale, scale // 2, scale // 3,
            -(scale // 3), 10 * scale + 3, -(10 * scale) - 3]
    if geps:
        base += [geps, geps - 1, geps + 1, -geps, -geps + 1, -geps - 1, 2 * geps, 2 * geps - 1]
    return base

def rand_raw(rng, scale):
    k = rng.random()
    if k < 0.35: return rng.randint(-60, 60)
    if k < 0.6: return rng.randint(-3 * scale, 3 * scale)
    if k < 0.8: return rng.choice([-1, 1]) * rng.randint(0, scale * 1000)
    if k < 0.95: return rng.choice([-1, 1]) * rng.randint(0, 10 ** rng.randint(1, 40))
    return 0

def gen_cases(seed, n, classes=(0, 1, 2), ops=None, maxp=12):
    rng = rng_for(seed, 'values', classes, ops)
    out = []
    for i in range(n):
        cls = rng.choice(classes)
        p = rng.choice([0, 1, 2, 3, 4, 5, 9, rng.randint(0, maxp), rng.randint(0, 30) if rng.random() < 0.1 else 4])
        g = rng.choice([0, 0, 1, 2, p // 2, p, rng.randint(0, 12)])
        if cls == 0:
            d = rng.choice([p, p, 0, rng.randint(0, p + 2), -1])
            scale = 10 ** p
        elif cls == 1:
            d = rng.choice([p, p, 0, p + g, rng.randint(0, p + g + 2)])
            scale = 10 ** (p + g)
        else:
            d = rng.choice([0, 1, 4, 12, rng.randint(0, 20)])
            scale = 10 ** rng.randint(0, 6)
        allowed = ops or ([1, 2, 7, 8, 9, 10, 11, 12, 13, 14, 15, 16, 17, 18, 6, 21] if cls == 2 else
                          [0, 1, 2, 3, 4, 5, 6, 7, 8, 9, 10, 11, 12, 13, 14, 15, 16, 17, 18, 20, 21] +
                          ([19, 22] if cls == 1 else []))
        op = rng.choice(allowed)
        rnd = rng.choice([0, 0, 1, 1, 1, 2, 3]) if op in (10, 11, 12) else 0
        geps = max(1, 10 ** g // 2) if cls == 1 else None
        def operand(allow_int):
            if cls == 2:
                num = rand_raw(rng, scale)
                den = rng.choice([1, 1, 2, 3, 7, scale, rng.randint(1, 10 ** rng.randint(1, 12))])
                return ('q', num, den)
            if allow_int and rng.random() < 0.25:
                return ('i', rng.choice([0, 1, -1, 2, 3, rng.randint(-50, 50)]))
            if rng.random() < 0.3:
                return ('v', rng.choice(interesting_ints(rng, scale, geps)))
            return ('v', rand_raw(rng, scale))
        intok = op in (0, 1, 2, 7, 8, 9, 10, 11, 12)
        A = operand(op in (0, 10, 11, 12))
        B = operand(intok)
        if cls == 1 and op in (13, 14, 15, 16, 17, 18, 19) and rng.random() < 0.6:
            # comparisons near the tolerance
            B = ('v', A[1] + rng.choice([-1, 1]) * (geps + rng.choice([-2, -1, 0, 1, 2])))
        C = operand(intok)
        rest = [rand_raw(rng, scale) for _ in range(rng.randint(0, 6))] if op == 20 else []
        out.append(dict(cls=cls, p=p, g=g, d=d, op=op, rnd=rnd, A=A, B=B, C=C, rest=rest))
    return out

def grid_cases(maxraw=60, ps=(0, 1, 2, 3), ops=(7, 9, 10, 11, 12), cls=0, g=0):
    """exhaustive grid |raw| <= maxraw for the rounding kernels (thorough tier)"""
    vals = list(range(-maxraw, maxraw + 1))
    for p in ps:
        for op in ops:
            for rnd in ((0, 1) if op in (10, 11, 12) else (0,)):
                for a in vals:
                    for b in vals:
                        cs = (1, -3, 7) if op == 12 else (1,)
                        for c in cs:
                            yield dict(cls=cls, p=p, g=g, d=p, op=op, rnd=rnd, A=('v', a), B=('v', b), C=('v', c), rest=[])

# ------------------------------------------------------------------ Fraction oracles (direct statements of C12/C13/C14)
import math
def floor_frac(x):
    return x.numerator // x.denominator

def oracle_c12(case, got):
    """expected answer of a Fixed kernel from first principles (Fraction); None = no opinion"""
    if case['cls'] != 0: return None
    S = 10 ** case['p']; op = case['op']
    def val(o): return Fraction(o[1]) if o[0] == 'i' else Fraction(o[1], S)
    a, b, c = val(case['A']), val(case['B']), val(case['C'])
    if op in (0, 10, 11, 12):
        pass
    else:
        a = Fraction(case['A'][1], S)
    try:
        if op == 1: x = a + b
        elif op == 2: x = a - b
        elif op == 3: x = -a
        elif op == 5: x = abs(a)
        elif op == 7: x = a * b
        elif op in (8, 9): x = a / b
        elif op == 10: x = a * b
        elif op == 11: x = a / b
        elif op == 12: x = a * b / c
        elif op in (13, 14, 15, 16, 17, 18):
            if case['B'][0] == 'i': return None
            r = {13: a == b, 14: a != b, 15: a < b, 16: a <= b, 17: a > b, 18: a >= b}[op]
            return "bool %d" % int(r)
        else:
            return None
    except ZeroDivisionError:
        # outside C12's domain: the code must reject it with an exception
        return got if got.startswith("exn ") else "exn ZeroDivisionError"
    if op in (10, 11, 12) and case['rnd'] in (2, 3):
        return got if got.startswith("exn ") else "exn ValueError"
    if op in (8, 9) and case['B'][0] == 'i':
        # value // int : floor of raw / int
        return "ok %d" % floor_frac(Fraction(case['A'][1]) / case['B'][1])
    if op == 7 and case['B'][0] == 'i':
        return "ok %d" % (case['A'][1] * case['B'][1])
    xs = x * S
    fl = floor_frac(xs)
    if op in (10, 11, 12) and case['rnd'] == 1 and xs != fl:
        fl += 1
    return "ok %d" % fl

def oracle_c12_rational(case, got):
    """rational arithmetic is exact and closed: the result is the exact Fraction result, as a Rational; None = no opinion"""
    if case['cls'] != 2: return None
    def val(o): return Fraction(o[1], o[2])
    a, b, c = val(case['A']), val(case['B']), val(case['C'])
    op = case['op']
    try:
        if op == 1: x = a + b
        elif op == 2: x = a - b
        elif op == 3: x = -a
        elif op == 4: x = +a
        elif op == 5: x = abs(a)
        elif op == 7: x = a * b
        elif op == 9: x = a / b
        elif op == 10: x = a * b
        elif op == 11: x = a / b
        elif op == 12: x = a * b / c
        else: return None
    except ZeroDivisionError:
        return got if got.startswith("exn ") else "exn ZeroDivisionError"
    if op in (10, 11, 12) and case['rnd'] in (2, 3):
        return None
    return "ok %d/%d" % (x.numerator, x.denominator)

def oracle_c14(case, got):
    """printed form = exact value rounded half-up to the display digits, sign shown correctly"""
    if case['op'] != 21 or not got.startswith('str '): return None
    s = got[4:]
    cls, p, g, d = case['cls'], case['p'], case['g'], case['d']
    if cls == 0:
        x = Fraction(case['A'][1], 10 ** p)
        dd = p if (d < 0 or d > p) else d
        if p == 0:
            return None if s == str(case['A'][1]) else "integer arithmetic prints %r for %d" % (s, case['A'][1])
    elif cls == 1:
        x = Fraction(case['A'][1], 10 ** (p + g)); dd = min(d, p + g)
    else:
        x = Fraction(case['A'][1], case['A'][2]); dd = d
    want = floor_frac(x * 10 ** dd + Fraction(1, 2))          # half-up at dd digits
    body = s.replace('_', '')
    neg = body.startswith('-')
    if neg: body = body[1:]
    if '.' in body:
        ip, fp = body.split('.')
    else:
        ip, fp = body, ''
    if not ip.isdigit() or (fp and not fp.isdigit()):
        return "malformed printed number %r" % s
    if cls != 0 or p != 0:
        if len(fp) != max(dd, 1) and not (dd == 0 and fp == '0'):
            return "printed %r has %d fractional digits, display is %d" % (s, len(fp), dd)
    shown = Fraction(int(ip + fp), 10 ** len(fp))
    if neg: shown = -shown
    if shown != Fraction(want, 10 ** dd):
        return "printed %r denotes %s, exact value %s rounds half-up to %s" % (s, shown, x, Fraction(want, 10 ** dd))
    if neg and shown == 0:
        return "printed %r: a value that rounds to zero is shown with a minus sign (exact value %s)" % (s, x)
    if cls == 1 and dd > p and ('_' not in s or len(s.split('_')[1]) != dd - p):
        return "guard digits not set off after underscore in %r" % s
    return None

def oracle_c13_cmp(case, got):
    """Guarded comparison law: equal iff the stored values differ by less than half a unit of the declared
    precision (10^guard raw units), otherwise ordered as the stored values."""
    if case['cls'] != 1 or case['op'] not in (13, 14, 15, 16, 17, 18, 19) or case['B'][0] != 'v': return None
    a, b, g = case['A'][1], case['B'][1], case['g']
    eq = 2 * abs(a - b) < 10 ** g
    lt = (not eq) and a < b
    gt = (not eq) and a > b
    op = case['op']
    if op == 19: return "ok %d" % (0 if eq else (1 if gt else -1))
    r = {13: eq, 14: not eq, 15: lt, 16: lt or eq, 17: gt, 18: gt or eq}[op]
    return "bool %d" % int(r)

def guard0_twin(case):
    """the Fixed case corresponding to a Guarded guard=0 case"""
    c = dict(case); c['cls'] = 0; c['g'] = 0
    return c
