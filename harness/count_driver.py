"""Correspondence driver `count`: the same election (BLT text + options) counted by /repo's droop and
by the extracted Coq model; canonical traces are compared under a per-property scope."""
import os, sys, signal, time, traceback, multiprocessing, json, re, zlib
from fractions import Fraction
from common import import_droop, tok_i, tok_s, rng_for, Model, VERIF

RULES = ['wigm', 'wigm-prf', 'wigm-prf-batch', 'scotland', 'cfer', 'cfer-batch', 'mpls', 'meek', 'warren', 'meek-prf', 'qpq']
RULE_ID = {'wigm': 0, 'wigm-prf': 1, 'wigm-prf-batch': 1, 'scotland': 2, 'cfer': 3, 'cfer-batch': 3, 'mpls': 4,
           'meek': 5, 'warren': 5, 'meek-prf': 6, 'qpq': 7}
STATUTORY = ['wigm-prf', 'wigm-prf-batch', 'scotland', 'cfer', 'cfer-batch', 'mpls', 'meek-prf', 'qpq']
GREGORY = ['wigm', 'wigm-prf', 'wigm-prf-batch', 'scotland', 'cfer', 'cfer-batch', 'mpls']
MEEKS = ['meek', 'warren', 'meek-prf']

try:
    sys.set_int_max_str_digits(0)     # rational Meek produces integers beyond CPython's default str() limit
except AttributeError:
    pass

class Timeout(Exception):
    pass
def _alarm(*a):
    raise Timeout()

# ------------------------------------------------------------------ abstract elections and their BLT rendering
ODD_NAMES = ['100%% %s', '%s %%s', '%%(%s)s', '{%s}', '%s%%', "%s'q", '%s \\n', '%%d %s', '%s %%']
def gen_election(rng, family=None, maxc=7, maxb=9):
    """an abstract election; one in twelve has candidate names with characters that mean something to a formatter"""
    e = _gen_election(rng, family, maxc, maxb)
    if rng.random() < 0.08:
        e['names'] = [rng.choice(ODD_NAMES) % nm for nm in e['names']]
    return e

def _gen_election(rng, family=None, maxc=7, maxb=9):
    """e = dict(n, s, wd, und, tie, lines=[(m, ranking)], eq=[(m, [[cids]..])], names)"""
    family = family or rng.choice(['small', 'small', 'tie', 'tie', 'nearquota', 'chain', 'starved', 'withdrawn', 'bigmult', 'mid', 'cross', 'coalition'])
    if family == 'cross': return gen_scot_cross(rng) if rng.random() < 0.6 else gen_scot_tie3(rng)
    if family == 'tinyvote': return gen_tinyvote(rng, rng.choice([1, 2]))
    if family == 'coalition': return gen_coalition(rng) if rng.random() < 0.6 else gen_multisurplus(rng)
    if family == 'multisurplus': return gen_multisurplus(rng)
    if family == 'cotie': return gen_cotie(rng)
    if family == 'cochain': return gen_cochain(rng)
    if family == 'zeros': return gen_zeros(rng)
    if family == 'writein_strong': return gen_writein_strong(rng)
    if family == 'exactquota4': return gen_exact_quota(rng, 4)
    if family == 'exactquota5': return gen_exact_quota(rng, 5)
    if family == 'exactquota9': return gen_exact_quota(rng, 9)
    if family == 'chain': n = rng.randint(4, max(maxc, 9))
    elif family == 'mid': n = rng.randint(5, 12)
    else: n = rng.randint(2, maxc)
    wds = []
    if family in ('withdrawn',) or rng.random() < 0.08:
        wds = [c for c in range(1, n + 1) if rng.random() < 0.25]
    elig = [c for c in range(1, n + 1) if c not in wds]
    if not elig:
        wds = []; elig = list(range(1, n + 1))
    s = rng.randint(1, len(elig))
    if family == 'starved': s = max(1, len(elig) - rng.randint(0, 1))
    lines = []
    k = rng.randint(1, maxb if family != 'mid' else 14)
    full = family == 'chain'
    for _ in range(k):
        m = rng.choice([1, 1, 1, 2, 3, rng.randint(1, 20)])
        if family == 'bigmult': m = rng.choice([1, 7, 100, 999, rng.randint(1, 10 ** 6)])
        # ballot totals beyond 2**53: every tally, quota and threshold must still be exact integer / decimal arithmetic
        if family == 'hugemult': m = rng.choice([2 ** 53 + 1, 10 ** 17 + 30, 10 ** 17 + 31, 3 * 10 ** 18 + 1, 10 ** 20 + 7, rng.randint(2 ** 53, 10 ** 19)])
        if family == 'tie':
            base = list(range(1, n + 1))
            r = base[:rng.randint(1, n)] if rng.random() < 0.5 else rng.sample(base, rng.randint(1, n))
            m = rng.choice([1, 1, 2])
        elif family == 'starved':
            # only a few candidates receive support
            sup = elig[:max(1, len(elig) // 2)]
            r = rng.sample(sup, rng.randint(1, len(sup)))
        elif full:
            r = rng.sample(range(1, n + 1), n)
        else:
            r = rng.sample(range(1, n + 1), rng.randint(1, n))
        lines.append((m, r))
    def total():
        return sum(m for m, r in lines if any(c not in wds for c in r))
    if family == 'nearquota':
        tgt = (s + 1) * rng.randint(1, 6) + rng.choice([-1, 0, 0, 1])
        if total() < tgt:
            lines.append((tgt - total(), [rng.choice(elig)]))
    if total() < len(elig):
        lines.append((len(elig) - total() + rng.randint(0, 2), [rng.choice(elig)]))
    tie = list(range(1, n + 1))
    if rng.random() < 0.7: rng.shuffle(tie)
    return dict(n=n, s=s, wd=wds, und=[], tie=tie, lines=lines, eq=[], names=['c%d' % i for i in range(1, n + 1)],
                family=family)

def gen_writein_election(rng):
    """Minneapolis: nobody at threshold in round 1 (so round 2 is reached), write-ins with little support"""
    n = rng.randint(4, 7)
    s = rng.randint(1, 2)
    nund = rng.randint(1, 2)
    und = list(range(n - nund + 1, n + 1))
    declared = list(range(1, n - nund + 1))
    lines = []
    base = rng.randint(3, 9)
    for c in declared:
        others = [x for x in range(1, n + 1) if x != c]
        rng.shuffle(others)
        lines.append((base + rng.randint(0, 3), [c] + others[:rng.randint(0, len(others))]))
    for u in und:
        lines.append((rng.choice([0, 1, 1, 2]) or 1, [u] + rng.sample(declared, rng.randint(0, 2))))
    for _ in range(rng.randint(0, 3)):
        lines.append((1, rng.sample(range(1, n + 1), rng.randint(1, n))))
    tie = list(range(1, n + 1)); rng.shuffle(tie)
    return dict(n=n, s=s, wd=[], und=und, tie=tie, lines=lines, eq=[], names=['c%d' % i for i in range(1, n + 1)], family='writein')

def _finish(rng, n, s, lines, names=None, shuffle_ids=True):
    """random renumbering of candidates so that structure is not tied to ids; random tie order"""
    ids = list(range(1, n + 1))
    perm = ids[:]
    if shuffle_ids: rng.shuffle(perm)
    m = dict(zip(ids, perm))
    lines = [(mult, [m[c] for c in r]) for mult, r in lines]
    rng.shuffle(lines)
    tie = ids[:]; rng.shuffle(tie)
    return dict(n=n, s=s, wd=[], und=[], tie=tie, lines=lines, eq=[], names=['c%d' % i for i in ids], family='directed')

def gen_scot_cross(rng):
    """two candidates tie for exclusion at stage 3+ after their order crossed at earlier stages
    (Scottish 51(2): most recent stage at which they differed)"""
    # candidates: 1=A leader, 2=B, 3=C, 4=D, 5=E (+ optional low extras transferring to A)
    b = rng.randint(4, 9); d1 = rng.randint(1, 2)           # B starts d1 below C
    c = b + d1
    e = rng.randint(d1 + 1, d1 + 2)                          # E's ballots go to B: B overtakes C
    gap = b + e - c                                          # B - C after E's exclusion (> 0)
    dd = gap + rng.randint(1, 3)                             # D has more than E; gap of them go to C -> tie
    if dd <= e: dd = e + 1
    a = max(b + e, c + gap) + rng.randint(2, 5)
    lines = [(a, [1]), (b, [2, 1]), (c, [3, 1]), (e, [5, 2, 1]), (gap, [4, 3, 1])]
    if dd - gap > 0: lines.append((dd - gap, [4, 1]))
    n = 5
    total = sum(m for m, _ in lines)
    seats = 1
    # keep A below the quota so that exclusions happen: quota = total//2 + 1
    if a >= total // 2 + 1:
        lines.append((2 * a - total + 2, [rng.choice([2, 3])]))  # breaks the construction sometimes; fine
    return _finish(rng, n, seats, lines)

def gen_cochain(rng):
    """a solid coalition with exactly as many members as seats, just above that many quotas, whose votes sit almost entirely
    with one leader: the other members are elected only by surplus passed down a chain (to convergence, for Meek);
    an outsider just below the quota waits for any of them to be excluded instead"""
    m = rng.choice([2, 3, 3, 4]); s = m
    u = rng.randint(3, 15); T = (s + 1) * u + rng.randint(0, s)
    out_votes = max(1, T // (s + 1) - rng.choice([0, 0, 0, 1, 2]))      # mostly: the coalition exceeds its quotas by a fraction of a vote
    co = T - out_votes
    members = list(range(1, m + 1))
    small = [rng.choice([0, 0, 1, 2, 3]) for _ in members[1:]]
    if sum(small) >= co: small = [0 for _ in small]
    lines = []
    order = members[1:]; rng.shuffle(order)
    lines.append((co - sum(small), [members[0]] + order))
    for c, v in zip(members[1:], small):
        if v:
            rest = [x for x in members if x != c]; rng.shuffle(rest)
            lines.append((v, [c] + rest))
    n = m + 1
    lines.append((out_votes, [n]))
    if rng.random() < 0.3:
        n += 1; lines.append((1, [n, rng.choice(members)]))
    if rng.random() < 0.25:       # the same election with every ballot line a billion-fold: a national electorate
        k = rng.choice([10 ** 9, 10 ** 12, 10 ** 9 + 7])
        lines = [(mu * k, r) for mu, r in lines]
    return _finish(rng, n, s, lines)

def gen_writein_strong(rng):
    """Minneapolis: undeclared write-ins with real support -- at or above the threshold on the first count, often while the
    declared candidates at the threshold do not fill the seats (a write-in is never electable, whatever its support)"""
    n = rng.randint(3, 6); s = rng.randint(1, min(3, n - 1))
    nund = rng.randint(1, min(2, n - 1))
    ids = list(range(1, n + 1)); rng.shuffle(ids)
    und = sorted(ids[:nund]); declared = ids[nund:]
    lines = []
    for c in und:
        lines.append((rng.randint(6, 25), [c] + rng.sample(declared, rng.randint(0, len(declared)))))
    strong = rng.sample(declared, rng.randint(0, min(len(declared), s)))
    for c in declared:
        others = [x for x in ids if x != c]; rng.shuffle(others)
        lines.append(((rng.randint(6, 25) if c in strong else rng.randint(1, 4)), [c] + others[:rng.randint(0, len(others))]))
    for _ in range(rng.randint(0, 2)):
        lines.append((1, rng.sample(ids, rng.randint(1, n))))
    rng.shuffle(lines)
    tie = list(range(1, n + 1)); rng.shuffle(tie)
    return dict(n=n, s=s, wd=[], und=und, tie=tie, lines=lines, eq=[], names=['c%d' % i for i in range(1, n + 1)], family='writein_strong')

def gen_zeros(rng):
    """fewer candidates with any support than seats, and a crowd of candidates nobody ranks first (or at all): the
    exclusions of zero-vote candidates (singly, or together under wigm's defeat_batch=zero) must leave enough to fill the seats"""
    v = rng.randint(1, 3); short = rng.randint(0, 2); s = v + short
    z = rng.randint(max(2, short + 1), 2 * short + 3)
    n = v + z
    lines = []
    for c in range(1, v + 1):
        tail = rng.sample([x for x in range(1, n + 1) if x != c], rng.randint(0, 2)) if rng.random() < 0.4 else []
        lines.append((rng.randint(1, 12), [c] + tail))
    for _ in range(rng.randint(0, 2)):
        lines.append((rng.randint(1, 3), [rng.randint(1, v)] + rng.sample(range(v + 1, n + 1), rng.randint(0, min(2, z)))))
    while sum(m for m, r in lines) < n: lines.append((n, [rng.randint(1, v)]))
    e = _finish(rng, n, s, lines); e['family'] = 'zeros'
    return e

def gen_cotie(rng):
    """a solid coalition whose members are exactly tied (for last place, usually) when the first exclusion is due:
    k members with t first preferences each, the other members next in rotating order; outsiders with bullet votes"""
    k = rng.choice([2, 2, 3]); t = rng.randint(1, 3)
    s = rng.choice([1, 1, 2])
    members = list(range(1, k + 1))
    lines = []
    for i, c in enumerate(members):
        rest = members[i + 1:] + members[:i]
        if rng.random() < 0.3: rng.shuffle(rest)
        tail = []
        lines.append((t, [c] + rest + tail))
    n = k
    if s == 2:
        n += 1; lines.append((k * t + rng.randint(0, 2), [n]))          # a strong outsider takes the first seat
    nz = rng.choice([1, 1, 2])
    for _ in range(nz):
        n += 1; lines.append((t + rng.randint(1, max(1, (k - 1) * t - 1)), [n] + ([rng.choice(members)] if rng.random() < 0.2 else [])))
    return _finish(rng, n, s, lines)

def gen_coalition(rng):
    """a solid coalition S barely above k quotas, with one strong member (pending surplus) and weak members
    that sure-loser batches may wrongly exclude; outsiders bullet-vote"""
    n = rng.randint(4, 7)
    size = rng.randint(2, min(4, n - 1))
    S = list(range(1, size + 1)); out = list(range(size + 1, n + 1))
    seats = rng.randint(1, min(3, n - 1))
    k = rng.randint(1, min(seats, size))
    N = rng.randint(12, 40)
    G = (k * N) // (seats + 1) + rng.randint(1, 3)           # just above k quotas
    if G >= N: G = N - 1
    lines = []
    # one or more strong members hold most of the coalition's first preferences; the rest get few or none
    nstrong = rng.randint(1, max(1, min(k, size - 1)))
    def srank(first):
        others = [c for c in S if c != first]; rng.shuffle(others)
        tail = out[:]; rng.shuffle(tail)
        return [first] + others + tail[:rng.randint(0, len(tail))]
    weakm = S[nstrong:]
    weak_tot = min(G - nstrong, rng.randint(0, 2 * len(weakm))) if weakm else 0
    weak_tot = max(0, weak_tot)
    cuts = sorted(rng.randint(0, G - weak_tot) for _ in range(nstrong - 1))
    shares = [b_ - a_ for a_, b_ in zip([0] + cuts, cuts + [G - weak_tot])]
    if rng.random() < 0.5:   # near-equal strong members
        base = (G - weak_tot) // nstrong
        shares = [base + (1 if i < (G - weak_tot) % nstrong else 0) for i in range(nstrong)]
    for c, sh in zip(S[:nstrong], shares):
        if sh > 0: lines.append((sh, srank(c)))
    for i, c in enumerate(weakm):
        share = weak_tot // len(weakm) + (1 if i < weak_tot % len(weakm) else 0)
        if share > 0: lines.append((share, srank(c)))
    o = N - G
    for i, c in enumerate(out):
        share = o // len(out) + (1 if i < o % len(out) else 0)
        if share > 0:
            tail = [x for x in out if x != c]; rng.shuffle(tail)
            lines.append((share, [c] + tail[:rng.randint(0, len(tail))]))
    return _finish(rng, n, seats, lines)

def gen_tinyvote(rng, prec):
    """guarded arithmetic at low precision: a candidate without first preferences receives a surplus at so small a
    transfer value that its tally is non-zero yet equal to zero under the fuzzy comparison"""
    Q = rng.randint(3 * 10 ** prec, 6 * 10 ** prec)
    k = rng.randint(1, 2)
    lines = [(Q, [1, 2]), (k, [1, 4]), (Q - rng.randint(1, 3), [2]), (Q, [3])]
    if rng.random() < 0.5: lines.append((rng.randint(1, 3), [5, 4]))
    n = 5 if len(lines) == 5 else 4
    return _finish(rng, n, 2, lines)

def gen_scot_tie3(rng):
    """three candidates tie for exclusion at stage 2+, two of them also tied at the earlier stages (lot after look-back)"""
    t = rng.randint(3, 8)
    lines = [(t, [1]), (t, [2]), (t + 1, [3]), (1, [4, 1]), (1, [4, 2])]
    if rng.random() < 0.5: lines += [(1, [5, 4, 1])]          # an earlier exclusion first: the tie arises at stage 3
    n = 5 if len(lines) == 6 else 4
    lines.append((rng.randint(t + 3, t + 6), [n + 1, rng.choice([1, 2, 3])]))
    return _finish(rng, n + 1, 1, lines)

def gen_multisurplus(rng):
    """several candidates elected at once with small pending surpluses pointing at weak candidates whose
    totals sit between 'lowest + largest surplus' and 'lowest + all surpluses' of the next candidate"""
    for _ in range(20000):
        seats = rng.randint(2, 4); k = rng.randint(2, seats)
        q = rng.randint(5, 12)
        ds = [rng.randint(1, 4) for _ in range(k)]
        nweak = rng.randint(2, 4)
        weak = sorted(rng.randint(0, q - 1) for _ in range(nweak))
        N = sum(q + d for d in ds) + sum(weak)
        if N // (seats + 1) + 1 != q: continue
        n = k + nweak
        if n <= seats: continue
        lines = []
        wk = list(range(k + 1, n + 1))
        for i, d in enumerate(ds):
            tail = wk[:]; rng.shuffle(tail)
            if rng.random() < 0.6: tail.sort(key=lambda c: weak[c - k - 1])      # surpluses go to the weakest first
            lines.append((q + d, [i + 1] + tail[:rng.randint(1, len(tail))]))
        for j, w in enumerate(weak):
            if w > 0:
                tail = [c for c in wk if c != k + 1 + j]; rng.shuffle(tail)
                lines.append((w, [k + 1 + j] + tail[:rng.randint(0, len(tail))]))
        return _finish(rng, n, seats, lines)
    return gen_coalition(rng)

def exact_quota_params(o):
    """(precision, quota kind) of the WIGM-style rule selected by options o, or None"""
    r = o['rule']
    if r in ('wigm-prf', 'wigm-prf-batch'): return (4, 'fixed')
    if r == 'scotland': return (5, 'int')
    if r == 'mpls': return (4, 'int')
    if r in ('cfer', 'cfer-batch'): return (5, 'fixed')
    if r == 'wigm' and o.get('arithmetic') in ('fixed', 'guarded') and o.get('precision') and o['precision'] <= 9:
        if o.get('arithmetic') == 'guarded' and o.get('guard', o['precision']) != 0: return None
        return (o['precision'], 'int' if o.get('integer_quota') else 'fixed')
    return None

_EXACT = {}
def _exact_solutions(p, kind):
    """(seats, v, a, k, N): candidate 1 has v first preferences, k of them name candidate 2 next, candidate 2 has a;
       the surplus transfer of 1 (value truncated to p places) lands 2 exactly on the quota"""
    key = (p, kind)
    if key in _EXACT: return _EXACT[key]
    S = 10 ** p; out = []
    if kind == 'fixed':
        for seats in (1, 2, 3, 4):
            for r in range(1, seats + 1):
                if 2 * r > seats + 1: continue
                for a in range(1, 1500):
                    N = (seats + 1) * a + r; q = N * S // (seats + 1) + 1; v = a + 1
                    w = (v * S - q) // v
                    if w <= 0: continue
                    need = q - a * S
                    if need % w == 0 and 1 <= need // w <= v:
                        out.append((seats, v, a, need // w, N))
    else:
        for seats in (2, 3, 4):
            for c in (2, 4, 5, 8, 10):
                if S % c: continue
                for d in range(1, 30):
                    Q = (c - 1) * d; v = c * d; a = Q - 1
                    if a < 1: continue
                    for N in range((seats + 1) * (Q - 1), (seats + 1) * Q):
                        if N - v - a >= 2 and N // (seats + 1) + 1 == Q:
                            out.append((seats, v, a, c, N))
    _EXACT[key] = out
    return out

def gen_exact_quota(rng, p=4, kind='fixed'):
    """an elected candidate's surplus lands a second candidate exactly on the quota
    (floor(N*S/(s+1)) + 1 raw units, or the whole-vote quota)"""
    S = 10 ** p
    sols = _exact_solutions(p, kind)
    if not sols: return gen_election(rng, 'nearquota')
    for _ in range(50):
        seats, v, a, k, N = rng.choice(sols)
        f = N - v - a
        q = N * S // (seats + 1) + 1 if kind == 'fixed' else (N // (seats + 1) + 1) * S
        if f < 0: continue
        nf = max(2 if f >= 2 else (1 if f == 1 else 0), (f * S) // q + 1 + rng.randint(0, 1)) if f > 0 else 0
        # later preferences on the ballots of the candidate who lands on the quota (a zero surplus must move nothing)
        t1 = [3 + j for j in range(nf)]; rng.shuffle(t1); t2 = t1[:]; rng.shuffle(t2)
        lines = [(k, [1, 2] + t1[:rng.randint(0, len(t1))]), (a, [2] + t2[:rng.randint(0, len(t2))])]
        if v - k > 0: lines.append((v - k, [1]))
        for i in range(nf):
            share = f // nf + (1 if i < f % nf else 0)
            if share > 0:
                tail = [3 + j for j in range(nf) if j != i]; rng.shuffle(tail)
                lines.append((share, [3 + i] + tail[:rng.randint(0, len(tail))]))
        n = 2 + nf
        if n <= seats: continue
        return _finish(rng, n, seats, lines)
    return gen_election(rng, 'nearquota')

def add_undeclared(rng, e):
    elig = [c for c in range(1, e['n'] + 1) if c not in e['wd']]
    e['und'] = [c for c in elig if rng.random() < 0.25]
    # a candidate may be listed both as withdrawn and as an undeclared write-in
    e['und'] = sorted(e['und'] + [c for c in e['wd'] if rng.random() < 0.5])
    return e

def add_equal_ranks(rng, e):
    n = e['n']
    for _ in range(rng.randint(1, 3)):
        cs = rng.sample(range(1, n + 1), rng.randint(2, n))
        ranks = []
        i = 0
        while i < len(cs):
            k = rng.choice([1, 1, 2, 3])
            ranks.append(cs[i:i + k]); i += k
        if all(len(r) == 1 for r in ranks):
            if len(ranks) >= 2:
                ranks = [ranks[0] + ranks[1]] + ranks[2:]
            else:
                continue
        e['eq'].append((rng.choice([1, 1, 2, 5]), ranks))
    return e

def render_blt(e):
    out = ['%d %d' % (e['n'], e['s'])]
    if e['wd']:
        # the same withdrawals in one of four spellings (chosen from the data, so that rendering stays a function of e)
        wd = list(e['wd']); form = (sum(wd) + e['n']) % 4
        if form == 0 or (len(wd) == 1 and form == 2): out.append(' '.join('-%d' % c for c in wd))
        elif form == 1: out.append('[withdrawn %s]' % ' '.join(map(str, wd)))
        elif form == 2: out.append('-%d' % wd[0]); out.append('[withdrawn %s]' % ' '.join(map(str, wd[1:])))
        else: out.extend('[withdrawn %d]' % c for c in wd)
    if e['und']: out.append('[undeclared %s]' % ' '.join(map(str, e['und'])))
    if e.get('tie'): out.append('[tie %s]' % ' '.join(map(str, e['tie'])))
    for grp in e.get('droop', []): out.append('[droop %s]' % ' '.join(grp))      # options embedded in the ballot file
    for m, r in e['lines']:
        out.append('%d %s 0' % (m, ' '.join(map(str, r))))
    for m, ranks in e.get('eq', []):
        out.append('%d %s 0' % (m, ' '.join('='.join(map(str, rk)) for rk in ranks)))
    out.append('0')
    out.append(' '.join('"%s"' % x for x in e['names']))
    out.append('"%s"' % e.get('title', 't'))
    return '\n'.join(out) + '\n'

def gen_options(rng, rule=None):
    r = rule or rng.choice(RULES + ['wigm', 'meek', 'warren'])
    o = dict(rule=r)
    if r in ('wigm', 'meek', 'warren'):
        arith = rng.choice(['fixed', 'guarded', 'integer', 'rational', None] if r == 'wigm' else
                           ['fixed', 'guarded', 'fixed', 'guarded', None, 'rational'])
        if arith: o['arithmetic'] = arith
        if arith in ('fixed', 'guarded'):
            if rng.random() < 0.8: o['precision'] = rng.choice([1, 2, 3, 4, 6, 9, 12])
            if arith == 'guarded' and rng.random() < 0.7: o['guard'] = rng.choice([0, 0, 1, 2, 3, o.get('precision', 9)])
            if rng.random() < 0.2: o['display'] = rng.choice([0, 2, 4, 20])
        if r == 'wigm':
            if rng.random() < 0.3: o['integer_quota'] = True
            if rng.random() < 0.3: o['defeat_batch'] = 'zero'
        else:
            if rng.random() < 0.5: o['omega'] = rng.choice([1, 2, 3, 5])
            if rng.random() < 0.3: o['defeat_batch'] = 'none'
    return o

# ------------------------------------------------------------------ implementation side
BYSTANDER_BLT = '''9 3
4 9 8 7 0
3 8 9 1 0
5 7 1 2 3 0
2 6 5 4 0
3 5 6 0
4 4 3 2 1 0
2 3 9 0
3 2 8 6 0
1 1 7 0
0
"Q1" "Q2" "Q3" "Q4" "Q5" "Q6" "Q7" "Q8" "Q9"
"bystander"
'''
def vraw(V, v):
    if v is None: return '-'
    if isinstance(v, Fraction): return "%d/%d~%s" % (v.numerator, v.denominator, str(v))
    return "%d~%s" % (v._value, str(v))

def vraw_only(v):
    if isinstance(v, Fraction): return "%d/%d" % (v.numerator, v.denominator)
    return "%d" % v._value

def impl_count(blt, opts, timeout=20, want_E=False):
    """run the implementation; returns dict(status, trace, tokens|None, E?)"""
    import_droop()
    from droop.profile import ElectionProfile, ElectionProfileError
    from droop.election import Election
    from droop import record as record_mod
    Election.prog = staticmethod(lambda m: None)
    res = dict(status=None, trace='', tokens=None)
    try:
        p = ElectionProfile(data=blt)
    except ElectionProfileError as ex:
        res['status'] = 'profile-error'; return res
    try:
        E = Election(p, dict(opts))
    except Exception as ex:
        res['status'] = 'reject:' + type(ex).__name__; res['msg'] = str(ex)[:200]; return res
    # for one count in four a bystander election -- other candidates, other ballots, the SAME options, those the ballot file
    # embeds included (the arithmetic classes keep their parameters at class level) -- is constructed between constructing this election and counting it:
    # a count may not depend on which other election objects are alive
    if zlib.crc32(blt.encode('utf-8', 'replace')) % 4 == 0:
        try:
            bb = BYSTANDER_BLT
            if p.options:       # the same effective configuration: the options this file embeds
                bb = bb.replace('\n', '\n[droop %s]\n' % ' '.join(p.options), 1)
            Election(ElectionProfile(data=bb), dict(opts))
            res['bystander'] = 1
        except Exception:
            res['bystander'] = 0
    # observe ballots at every non-log action (from outside: no source hook)
    snaps = []
    snaps_obj = []
    orig_action = record_mod.ElectionRecord.action
    def action(self, tag, msg):
        orig_action(self, tag, msg)
        if tag != 'log':
            snaps.append([(b.index, vraw_only(b.weight)) for b in self.E.ballots])
            snaps_obj.append([(b.index, b.weight) for b in self.E.ballots])
    record_mod.ElectionRecord.action = action
    exc = None
    old = signal.signal(signal.SIGALRM, _alarm)
    signal.alarm(timeout)
    try:
        E.count()
    except Timeout:
        exc = 'timeout'
    except RecursionError:
        exc = 'timeout'
    except Exception as ex:
        exc = type(ex).__name__
        res['exc_tb'] = traceback.format_exc()[-600:]
    finally:
        signal.alarm(0)
        signal.signal(signal.SIGALRM, old)
        record_mod.ElectionRecord.action = orig_action
    res['tokens'] = model_tokens(E, p)     # a function of profile and options only: available even when the count hangs
    res['arith'] = E.V.name
    if exc == 'timeout':
        res['status'] = 'timeout'; return res
    V = E.V
    out = []
    si = 0
    method = E.rule.method
    for a in E.erecord['actions']:
        out.append("A %s %d %s" % (a['tag'], a['round'], a['msg']))
        if a['tag'] == 'log': continue
        nt = a.get('nt_votes') if method == 'wigm' else a.get('residual') if method == 'meek' else None
        out.append("S q=%s v=%s nt=%s s=%s" % (vraw(V, a['quota']), vraw(V, a['votes']), vraw(V, nt), vraw(V, a.get('surplus'))))
        for cid in sorted(a['cstate']):
            c = a['cstate'][cid]
            if c['state'] == 'withdrawn':
                out.append("C %d withdrawn W" % cid)
            else:
                pend = c.get('pending')
                out.append("C %d %s %s %s kf=%s quo=%s p=%s" % (cid, c['state'], c['code'], vraw(V, c['vote']), vraw(V, c.get('kf')),
                           vraw(V, c.get('quotient')), '-' if pend is None else ('1' if pend else '0')))
        out.append("B" + "".join(" %d:%s" % (i, w) for i, w in snaps[si]))
        si += 1
    if exc and not (exc == 'AssertionError' and E.elected is not None):
        out.append("X " + exc)
        res['status'] = 'crash:' + exc
    else:
        def cids(l): return "".join(" %d" % c.cid for c in sorted(l, key=lambda c: c.cid))
        out.append("R elected=%s defeated=%s withdrawn=%s" % (cids(E.elected), cids(E.defeated), cids(E.withdrawn)))
        if exc:
            out.append("X AssertionError"); res['status'] = 'crash:AssertionError(postCheck)'
        else:
            out.append("P ok"); res['status'] = 'ok'
    res['trace'] = "\n".join(out)
    if want_E:
        res['E'] = E; res['snaps_obj'] = snaps_obj
    return res

def model_tokens(E, p, fuelbits=22):
    """the count case for the model, derived from what the implementation parsed / configured"""
    o = E.options
    rname = o.getopt('rule')
    V = E.V
    if V.name in ('fixed', 'integer'):
        ar, prec, g = 0, V.precision, 0
        d = o.getopt('display')
    elif V.name == 'guarded':
        ar, prec, g = 1, V.precision, V.guard
        d = o.getopt('display')
    else:
        ar, prec, g, d = 2, 0, 0, V.dp
    rule = E.rule
    om = getattr(rule, 'omega10', None)
    om = int(om) if om is not None else 0
    iq = 1 if getattr(rule, 'integer_quota', False) is True else 0
    db = getattr(rule, 'defeat_batch', None)
    bz = 1 if db == 'zero' else 0
    bt = 1 if (db is True or db == 'safe') else 0
    wa = 1 if getattr(rule, 'warren', False) else 0
    t = [tok_s('count'), tok_s(rname), tok_i(RULE_ID[rname]), tok_i(ar), tok_i(prec), tok_i(g), tok_i(int(d)), tok_i(0),
         tok_i(om), tok_i(iq), tok_i(bz), tok_i(bt), tok_i(wa), tok_i(fuelbits), tok_i(p.nSeats), tok_i(p.nBallots)]
    cids = sorted(p.eligible | p.withdrawn)
    t.append(tok_i(len(cids)))
    for cid in cids:
        nick = p.nickName[cid]
        t += [tok_i(cid), tok_i(p.candidateOrder[cid]), tok_i(p.tieOrder[cid]), tok_s(p.candidateName[cid]),
              tok_s(str(cid) if nick is None else str(nick)), tok_i(1 if cid in p.withdrawn else 0),
              tok_i(1 if cid in p.undeclared else 0)]
    bl = [b for b in p.ballotLines]
    t.append(tok_i(len(bl)))
    for b in bl:
        r = list(b.ranking) if b.ranking is not None else []
        t += [tok_i(b.multiplier), tok_i(len(r))] + [tok_i(c) for c in r]
    ebl = [b for b in p.ballotLinesEqual]
    t.append(tok_i(len(ebl)))
    for b in ebl:
        ranks = [list(rk) for rk in (b.ranking or ())]
        t += [tok_i(b.multiplier), tok_i(len(ranks))]
        for rk in ranks:
            t += [tok_i(len(rk))] + [tok_i(c) for c in rk]
    return t

# ------------------------------------------------------------------ scopes
def project(trace, scope):
    """keep only the fields a property's theorems speak about"""
    if scope == 'full':
        return trace
    if scope == 'record':      # everything the election record holds: the harness's ballot snapshots are left out
        return "\n".join(l for l in trace.split("\n") if not (l == 'B' or l.startswith('B ')))
    out = []
    for l in trace.split("\n"):
        k = l[:2]
        if k == 'A ':
            parts = l.split(' ', 3)
            if parts[1] == 'log':
                continue
            out.append("A %s %s" % (parts[1], parts[2]))
        elif k == 'S ':
            if scope in ('values', 'ballots', 'quota'):
                out.append(re.sub(r'~[^ ]*', '', l))
        elif k == 'C ':
            f = l.split(' ')
            if f[2] == 'withdrawn':
                out.append(l)
            elif scope == 'states':
                out.append(" ".join(f[:4] + f[-1:]))
            elif scope in ('values', 'ballots', 'quota'):
                out.append(re.sub(r'~[^ ]*', '', l))
        elif k in ('B ', 'B'):
            if scope == 'ballots':
                out.append(l)
        elif scope == 'final' and k not in ('R ', 'P ', 'X '):
            continue
        else:
            out.append(l)
    if scope == 'final':
        out = [l for l in out if l[:2] in ('R ', 'P ', 'X ')]
    return "\n".join(out)

def first_diff(a, b):
    la, lb = a.split("\n"), b.split("\n")
    for i, (x, y) in enumerate(zip(la, lb)):
        if x != y:
            return dict(line=i, implementation=x[:300], model=y[:300], context=la[max(0, i - 3):i])
    if len(la) != len(lb):
        i = min(len(la), len(lb))
        return dict(line=i, implementation=(la[i] if i < len(la) else '<end>')[:300], model=(lb[i] if i < len(lb) else '<end>')[:300])
    return None

# ------------------------------------------------------------------ parallel execution
_model = None
def _worker(args):
    """args = (idx, blt, opts, timeout, oracle_names); returns dict"""
    global _model
    idx, blt, opts, timeout, oracle_names, use_model = args[:6]
    want_e2e = len(args) > 6 and args[6]
    t0 = time.time()
    try:
        r = impl_count(blt, opts, timeout=timeout, want_E=bool(oracle_names))
    except Exception as ex:
        return dict(idx=idx, status='harness-error', err=traceback.format_exc()[-800:], trace='', model=None, oracle=[])
    out = dict(idx=idx, status=r['status'], trace=r['trace'], model=None, oracle=[], msg=r.get('msg'), exc_tb=r.get('exc_tb'), arith=r.get('arith'), bystander=r.get('bystander'))
    if oracle_names and 'E' in r:
        import oracles
        for name in oracle_names:
            try:
                out['oracle'] += [(name, v) for v in getattr(oracles, name)(r['E'], blt, opts, r)]
            except Exception:
                out['oracle'].append((name, 'ORACLE-ERROR ' + traceback.format_exc()[-500:]))
        out['stats'] = oracles.trace_stats(r['E'])
    r.pop('E', None); r.pop('snaps_obj', None)
    if use_model and r['tokens'] is not None:
        if _model is None:
            _model = Model('fast')
        out['model'] = _model.run_timeout(r['tokens'], max(timeout, 10))
        if want_e2e:
            # the same case through the composed pipeline: the reader model parses the text, the count model counts it
            t = r['tokens']
            out['e2e'] = _model.run_timeout([tok_s('e2e')] + t[1:14] + [tok_i(0)] + [tok_i(ord(ch)) for ch in blt], max(timeout, 10))
    out['wall'] = time.time() - t0
    return out

def run_cases(cases, oracle_names=(), timeout=20, nproc=None, use_model=True, e2e=0):
    """cases: list of (blt, opts).  Returns list of result dicts (same order).  e2e: the first e2e cases also run
    through the composed reader+count model (text in, trace out)."""
    nproc = nproc or min(16, os.cpu_count() or 4)
    args = [(i, blt, opts, timeout, tuple(oracle_names), use_model, i < e2e) for i, (blt, opts) in enumerate(cases)]
    if len(cases) < 8 or nproc == 1:
        return [_worker(a) for a in args]
    ctx = multiprocessing.get_context('fork')
    with ctx.Pool(nproc, maxtasksperchild=400) as pool:
        res = pool.map(_worker, args, chunksize=max(1, min(50, len(args) // (nproc * 4) or 1)))
    return res
