"""Entry point of every registered check (see DESIGN.md §5)."""
import sys, os, argparse, importlib, json, traceback
sys.path.insert(0, os.path.dirname(os.path.abspath(__file__)))
from common import Model, VERIF
import checklib

def main():
    ap = argparse.ArgumentParser()
    ap.add_argument('pid')
    ap.add_argument('--tier', default=os.environ.get('VERIF_TIER', 'quick'), choices=['quick', 'thorough'])
    ap.add_argument('--replay')
    ap.add_argument('--no-build', action='store_true')
    a = ap.parse_args()
    pid = a.pid.upper()
    mod = importlib.import_module('props.' + pid.lower())
    chk = checklib.Check(pid, a.tier, level='proof')
    if a.replay:
        return mod.replay(chk, json.load(open(a.replay)))
    build = checklib.ensure_build() if not a.no_build else dict(code=0, log='', wall=0, translator_ok=True, model_ok=True, all_ok=True)
    bad = checklib.forbidden_scan()
    proof = checklib.proof_status(pid)
    broken = []
    if bad:
        broken.append("forbidden constructs in the development: " + "; ".join(bad[:5]))
    if not build['translator_ok']:
        broken.append("translator failed closed on the current source: " + build['log'][-600:])
    if not proof['ok']:
        why = proof.get('structural') or proof.get('bad_axioms') or proof.get('log', '')[-1500:] or 'proof file did not check'
        broken.append("Props/%s.v no longer checks: %s" % (pid, why))
    if a.tier == 'thorough' and proof.get('compiled'):
        ck = checklib.coqchk_status(pid)
        chk.cov['coqchk'] = dict(ok=ck['ok'], axioms=ck['axioms'], wall_s=ck['wall'], unsafe=ck['unsafe'])
        if not ck['ok']:
            broken.append("coqchk -o does not accept Props/%s.vo: %s" % (pid, ck['bad_axioms'] or ck['unsafe'] or ck['log'][-600:]))
    model = Model('fast') if build['model_ok'] else None
    if model is None:
        broken.append("model did not build: " + build['log'][-1500:])
    try:
        mod.run(chk, dict(build=build, proof=proof, model=model, broken=broken, tier=a.tier))
    except Exception:
        chk.violation("check machinery raised", dict(traceback=traceback.format_exc()), found_input=False)
    finally:
        if model: model.close()
    if broken and not any(f for (_, _, f) in chk.violations):
        # a proof obligation / the tie is broken and the search produced no failing input
        chk.violation("obligation broken: " + broken[0][:300], dict(broken=broken), found_input=False)
    return chk.finish(build, proof)

if __name__ == '__main__':
    sys.exit(main())
