"""Correspondence driver `parse`: the same text through droop.profile.ElectionProfile (/repo) and
through the extracted Coq model (Model/Profile.v via Model/DriverParse.v), both rendered as the same
canonical text; plus the generators (well-formed renderings of abstract elections, malformed texts)
and the implementation-side oracles of C15 / C16."""
import sys, os, signal, tempfile, re
from common import import_droop, tok_i, tok_s, rng_for

MODE_DATA, MODE_PATH, MODE_TOKENS = 0, 1, 2

# ------------------------------------------------------------------ canonical text
_BIG = 10 ** 4000
def dec(n):
    "decimal text of an int of any size (str() refuses > 4300 digits)"
    if -_BIG < n < _BIG:
        return str(n)
    sign = '-' if n < 0 else ''
    n = abs(n)
    parts = []
    while n:
        n, r = divmod(n, _BIG)
        parts.append(r)
    return sign + str(parts[-1]) + ''.join('%04000d' % x for x in reversed(parts[:-1]))

def cps(s):
    return "".join(" %d" % ord(c) for c in s)

def zs(l):
    return "".join(" " + dec(int(c)) for c in l)

def opt(s):
    return " none" if s is None else " some" + cps(s)

def render_fields(nCand, nSeats, title, source, comment, nBallots, eligible, withdrawn, undeclared, names, order,
                  lines, elines, tie, nick, options):
    L = ["nCand " + dec(nCand), "nSeats " + dec(nSeats), "title" + cps(title), "source" + opt(source),
         "comment" + opt(comment), "nBallots " + dec(nBallots), "eligible" + zs(sorted(eligible)),
         "withdrawn" + zs(sorted(withdrawn)), "undeclared" + zs(sorted(undeclared))]
    for c in sorted(names): L.append("name %s :%s" % (dec(c), cps(names[c])))
    for c in sorted(order): L.append("order %s %s" % (dec(c), dec(order[c])))
    for m, r in lines: L.append("ballot %s :%s" % (dec(m), zs(r)))
    for m, r in elines: L.append("eballot %s :%s" % (dec(m), "".join(" |" + zs(g) for g in r)))
    for c in sorted(tie): L.append("tie %s %s" % (dec(c), dec(tie[c])))
    for c in sorted(nick): L.append("nick %s :%s" % (dec(c), cps(nick[c])))
    for o in options: L.append("option" + cps(o))
    L.append("end")
    return "\n".join(L)

def render_profile(p):
    return render_fields(p.nCand, p.nSeats, p.title, p.source, p.comment, p.nBallots, p.eligible, p.withdrawn,
                         p.undeclared, p.candidateName, p.candidateOrder,
                         [(b.multiplier, list(b.ranking)) for b in p.ballotLines],
                         [(b.multiplier, [list(g) for g in b.ranking]) for b in p.ballotLinesEqual],
                         p.tieOrder, p.nickName, p.options)

# ------------------------------------------------------------------ implementation side
class CaseTimeout(BaseException):
    pass

def _alarm(signum, frame):
    raise CaseTimeout()

def impl_parse(text, mode=MODE_DATA, timeout=20):
    """-> (canonical text, profile or None).  The exception class name is the observable on failure;
    a wall-clock overrun is reported as 'HANG'."""
    import_droop()
    from droop.profile import ElectionProfile
    old = signal.signal(signal.SIGALRM, _alarm)
    signal.setitimer(signal.ITIMER_REAL, timeout)
    path = None
    try:
        try:
            if mode == MODE_PATH:
                fd, path = tempfile.mkstemp(prefix='blt', dir=os.environ.get('TMPDIR', '/tmp'))
                with os.fdopen(fd, 'wb') as f:
                    f.write(text.encode('utf-8'))
                p = ElectionProfile(path=path)
            else:
                p = ElectionProfile(data=text)
            return render_profile(p), p
        except CaseTimeout:
            return "HANG", None
        except BaseException as ex:   # the exception class is the observable
            if isinstance(ex, (KeyboardInterrupt, SystemExit)) and not isinstance(ex, CaseTimeout):
                raise
            return "Raise " + type(ex).__name__, None
    finally:
        signal.setitimer(signal.ITIMER_REAL, 0)
        signal.signal(signal.SIGALRM, old)
        if path:
            try: os.unlink(path)
            except OSError: pass

def impl_tokens(text):
    "the tokens the implementation's generator yields, as canonical text"
    import_droop()
    from droop.profile import ElectionProfile
    p = ElectionProfile.__new__(ElectionProfile)
    p.lineNumber = 0
    toks = list(p._ElectionProfile__bltBlob(text))
    return "\n".join(["tok" + cps(t) for t in toks] + ["end"])

def to_tokens(text, mode=MODE_DATA):
    return [tok_s("parse"), tok_i(mode)] + [tok_i(ord(c)) for c in text]

# ------------------------------------------------------------------ oracles (implementation side)
def valid_profile(p):
    """the invariants of a valid election (C16); returns a list of complaints"""
    bad = []
    def chk(c, what):
        if not c: bad.append(what)
    n = p.nCand
    chk(isinstance(n, int) and n >= 1, "nCand is not a positive int")
    if bad: return bad
    full = set(range(1, n + 1)) if n < 10 ** 6 else None
    chk(full is not None, "nCand implausibly large for an accepted profile")
    if bad: return bad
    chk(isinstance(p.nSeats, int) and 1 <= p.nSeats <= len(p.eligible), "seats not within 1..eligible")
    chk(p.nBallots >= len(p.eligible), "fewer ballots than eligible candidates")
    chk(set(p.withdrawn) <= full, "withdrawn candidate out of range")
    chk(set(p.undeclared) <= full, "undeclared candidate out of range")
    chk(set(p.eligible) == full - set(p.withdrawn), "eligible is not the complement of withdrawn")
    total = 0
    for b in p.ballotLines:
        r = list(b.ranking)
        chk(isinstance(b.multiplier, int) and b.multiplier >= 1, "multiplier < 1")
        chk(len(r) >= 1, "empty ranking kept")
        chk(all(isinstance(c, int) and 1 <= c <= n for c in r), "candidate out of range in a ranking")
        chk(len(set(r)) == len(r), "candidate repeated in a ranking")
        chk(not (set(r) & set(p.withdrawn)), "withdrawn candidate in a ranking")
        total += b.multiplier
    for b in p.ballotLinesEqual:
        chk(isinstance(b.ranking, tuple) and len(b.ranking) >= 1, "empty equal ranking kept")
        flat = [c for g in b.ranking for c in g]
        chk(all(len(g) >= 1 for g in b.ranking), "empty rank group kept")
        chk(any(len(g) > 1 for g in b.ranking), "equal-ranking line without an equal rank")
        chk(isinstance(b.multiplier, int) and b.multiplier >= 1, "multiplier < 1")
        chk(all(isinstance(c, int) and 1 <= c <= n for c in flat), "candidate out of range in a ranking")
        chk(len(set(flat)) == len(flat), "candidate repeated in a ranking")
        chk(not (set(flat) & set(p.withdrawn)), "withdrawn candidate in a ranking")
        total += b.multiplier
    chk(p.nBallots == total, "nBallots is not the sum of the kept multipliers")
    chk(set(p.candidateName) == full and all(isinstance(v, str) for v in p.candidateName.values()), "candidateName keys")
    chk(p.candidateOrder == dict((c, c) for c in full), "candidateOrder is not the identity")
    chk(set(p.tieOrder) == full and len(set(p.tieOrder.values())) == n, "tieOrder is not an injection on 1..nCand")
    chk(set(p.nickName) == full and len(set(p.nickName.values())) == n, "nickName is not an injection on 1..nCand")
    chk(isinstance(p.title, str), "title is not a string")
    chk(p.source is None or isinstance(p.source, str), "source")
    chk(p.comment is None or isinstance(p.comment, str), "comment")
    return bad

def constructor_failures(p, timeout=20):
    """Election(profile, dict(rule=r)) for every rule; -> list of (rule, exception class name)"""
    droop = import_droop()
    from droop.election import Election
    out = []
    old = signal.signal(signal.SIGALRM, _alarm)
    signal.setitimer(signal.ITIMER_REAL, timeout)
    try:
        for r in droop.electionRuleNames():
            try:
                Election(p, dict(rule=r))
            except CaseTimeout:
                out.append((r, 'HANG')); break
            except Exception as ex:
                out.append((r, type(ex).__name__))
    finally:
        signal.setitimer(signal.ITIMER_REAL, 0)
        signal.signal(signal.SIGALRM, old)
    return out

# ------------------------------------------------------------------ abstract elections
WS = [c for c in range(0x3001) if chr(c).isspace()]
WS_NOBREAK = [c for c in WS if len(('a' + chr(c) + 'b').splitlines()) == 1]
BREAKS = [c for c in WS if c not in WS_NOBREAK]
DIGIT_ZEROS = [0x30, 0x660, 0x6F0, 0x966, 0xFF10, 0x1D7CE, 0x1D7D8]   # ASCII, Arabic-Indic, ext. Arabic-Indic, Devanagari, full-width, math bold, math double-struck
NAME_CHARS = "abcdefghijklmnopqrstuvwxyzABCDEFGHIJKLMNOPQRSTUVWXYZ0123456789.,-_'()[]=#/*!?" + \
             "éüßłЖжΩ中文٠٣１²Ⅰ\U0001F600\ufeff\u200b"
NICK_CHARS = "abcdefghijklmnopqrstuvwxyzABCDEFGHIJKLMNOPQRSTUVWXYZ_.éЖ中" + "0123456789"
ID_CHARS = "abcdefghijklmnopqrstuvwxyzABCDEFXYZ0123456789-_.é中"

def gen_word(rng, chars, lo=1, hi=8):
    return "".join(rng.choice(chars) for _ in range(rng.randint(lo, hi)))

def gen_name(rng, maxlen=30, allow_trailing_space=True):
    """a name the format can carry: words (no whitespace, no double quote) joined by single blanks,
    not starting with a blank; optionally one trailing blank (a lone closing quote token)"""
    k = rng.choice([1, 1, 1, 2, 2, 3, 4])
    words = []
    for i in range(k):
        w = gen_word(rng, NAME_CHARS, 0 if (k == 1 and rng.random() < 0.05) else 1, 9)
        if rng.random() < 0.15: w = rng.choice(['#', '/*', '*/', '/*x*/', '#x', '[', ']', '(', ')', '0', '-1', '=']) + (w if rng.random() < 0.5 else '')
        words.append(w)
    s = " ".join(words)[:maxlen].rstrip(' ')
    if allow_trailing_space and s and rng.random() < 0.05:
        s += ' '
    return s

def gen_nick(rng, used):
    while True:
        w = gen_word(rng, NICK_CHARS, 1, 5)
        if re.match(r'\d+$', w) or w in used:     # digits-only nicknames are shadowed by numeric references
            continue
        if w.startswith(('/*', '#')) or w.endswith('*/'):
            continue
        used.add(w)
        return w

def gen_election(rng, maxcand=40, maxlines=60):
    """a random abstract election that is well-formed (the parser must accept every rendering)"""
    while True:
        k = rng.random()
        n = rng.randint(1, min(4, maxcand)) if k < 0.35 else rng.randint(min(2, maxcand), min(9, maxcand)) if k < 0.8 else rng.randint(min(10, maxcand), maxcand)
        withdrawn = set(c for c in range(1, n + 1) if rng.random() < rng.choice([0, 0, 0.15, 0.4]))
        if len(withdrawn) == n:
            withdrawn.discard(rng.randint(1, n))
        elig = [c for c in range(1, n + 1) if c not in withdrawn]
        undeclared = set(c for c in range(1, n + 1) if rng.random() < rng.choice([0, 0, 0, 0.2]))
        seats = rng.randint(1, len(elig))
        use_ids = rng.random() < 0.15
        use_equal = (not use_ids) and rng.random() < 0.3
        nlines = rng.randint(1, rng.choice([3, 8, 20, maxlines]))
        ballots = []
        for i in range(nlines):
            m = 1 if use_ids else rng.choice([1, 1, 1, 2, 3, rng.randint(1, 50), rng.randint(1, 10 ** rng.randint(1, 30))])
            pool = list(range(1, n + 1))
            rng.shuffle(pool)
            ln = rng.randint(0 if (not use_ids and rng.random() < 0.1) else 1, n)
            picked = pool[:ln]
            if use_ids and all(c in withdrawn for c in picked):
                picked.append(rng.choice(elig)) if not (set(picked) & set(elig)) else None
                picked = list(dict.fromkeys(picked))
            groups = []
            i2 = 0
            while i2 < len(picked):
                g = 1
                if use_equal and rng.random() < 0.3:
                    g = rng.randint(2, 3)
                groups.append(picked[i2:i2 + g]); i2 += g
            if use_ids:
                # with ballot ids every line must survive as an unequal ballot line
                groups = [[c] for c in picked]
            ballots.append((m, groups))
        e = dict(n=n, seats=seats, withdrawn=withdrawn, undeclared=undeclared, ballots=ballots,
                 names=[gen_name(rng) for _ in range(n)],
                 title=gen_name(rng, allow_trailing_space=False),
                 source=None, comment=None, tie=None, nicks=None, ids=None, options=[])
        if rng.random() < 0.4:
            e['source'] = gen_name(rng, allow_trailing_space=False)
            if rng.random() < 0.5:
                e['comment'] = gen_name(rng, allow_trailing_space=False)
        if rng.random() < 0.35:
            t = list(range(1, n + 1)); rng.shuffle(t); e['tie'] = t
        if rng.random() < 0.4:
            used = set(); e['nicks'] = [gen_nick(rng, used) for _ in range(n)]
            if n >= 2 and rng.random() < 0.3:
                # nicknames that look like numbers: a number that is a valid candidate id always means that candidate, so
                # these are never used to refer to anybody (ref() below), they only sit in the [nick ...] list
                perm = list(range(1, n + 1)); rng.shuffle(perm)
                e['nicks'] = [str(x) for x in perm]
        if use_ids:
            used = set(); ids = []
            for _ in ballots:
                while True:
                    w = " ".join(gen_word(rng, ID_CHARS, 1, 6) for _ in range(rng.choice([1, 1, 2, 3])))
                    if w not in used: break
                used.add(w); ids.append(w)
            e['ids'] = ids
        if rng.random() < 0.15:
            e['options'] = [rng.choice(['arithmetic=fixed', 'precision=4', 'rule=meek', 'omega=7', 'x', 'a=b=c', '12'])
                            for _ in range(rng.randint(0, 3))]
        nm = norm(e)
        if nm['nBallots'] >= len(elig) and (not use_ids or len(nm['lines']) == len(ballots)):
            return e

def norm(e):
    """what the election denotes after the documented normalisation: withdrawn candidates stripped,
    emptied ballots dropped, ballot total = sum of kept multipliers"""
    lines, elines, total = [], [], 0
    for m, groups in e['ballots']:
        if not groups:
            continue                       # `if ranking:` -- a line with no ranking is ignored
        gs = [[c for c in g if c not in e['withdrawn']] for g in groups]
        equal = any(len(g) > 1 for g in gs)
        gs = [g for g in gs if g]
        if not gs:
            continue
        total += m
        if equal: elines.append((m, gs))
        else: lines.append((m, [g[0] for g in gs]))
    n = e['n']
    return dict(nBallots=total, lines=lines, elines=elines,
                eligible=set(range(1, n + 1)) - e['withdrawn'],
                tie=dict((c, i + 1) for i, c in enumerate(e['tie'])) if e['tie'] else dict((c, c) for c in range(1, n + 1)),
                nick=dict((i + 1, w) for i, w in enumerate(e['nicks'])) if e['nicks'] else dict((c, str(c)) for c in range(1, n + 1)))

def expected_text(e):
    nm = norm(e)
    n = e['n']
    return render_fields(n, e['seats'], e['title'], e['source'], e['comment'], nm['nBallots'], nm['eligible'],
                         e['withdrawn'], e['undeclared'], dict((i + 1, s) for i, s in enumerate(e['names'])),
                         dict((c, c) for c in range(1, n + 1)), nm['lines'], nm['elines'], nm['tie'], nm['nick'],
                         e['options'])

# ------------------------------------------------------------------ rendering: tokens, then layout
def num(rng, v, plain=False):
    "a decimal token for v >= 0 (other scripts' digits and leading zeros are what \\d+ and int() accept)"
    s = str(v)
    if plain or rng.random() < 0.85:
        return s
    if rng.random() < 0.5:
        s = '0' * rng.randint(1, 3) + s
    z = rng.choice(DIGIT_ZEROS)
    if rng.random() < 0.5:
        return "".join(chr(z + int(d)) for d in s)
    return "".join(chr(rng.choice(DIGIT_ZEROS) + int(d)) for d in s)

def quoted_tokens(rng, s):
    """tokens of a quoted string; blanks inside become token boundaries (any whitespace will do)"""
    trailing = s.endswith(' ')
    words = s.rstrip(' ').split(' ') if s.rstrip(' ') != '' else ['']
    words[0] = '"' + words[0]
    if trailing:
        words.append('"')
    else:
        words[-1] = words[-1] + '"'
    return [('q', w) for w in words]

def tokens_of(rng, e):
    """the token sequence of one rendering of e (choices: nicknames vs numbers, -n vs [withdrawn],
    option order, ballot ids); each item is (kind, text), kind 'q' = part of a quoted string"""
    n = e['n']
    T = []
    def t(s): T.append(('t', s))
    t(num(rng, n)); t(num(rng, e['seats']))
    nick_on = [False]
    def ref(c):
        if nick_on[0] and rng.random() < 0.6 and not re.match(r'\d+$', e['nicks'][c - 1]):
            return e['nicks'][c - 1]
        s = num(rng, c)
        if s == '0': s = '00'
        return s
    def close(items):
        "emit list items and the closing bracket"
        if items and rng.random() < 0.6:
            for x in items[:-1]: t(x)
            t(items[-1] + ']')
        else:
            for x in items: t(x)
            t(']')
    wd = list(e['withdrawn']); rng.shuffle(wd)
    minus = [c for c in wd if rng.random() < 0.5]
    brack = [c for c in wd if c not in minus]
    blocks = []
    for c in minus: blocks.append(('minus', c))
    while brack:
        k = rng.randint(1, len(brack)); blocks.append(('withdrawn', brack[:k])); brack = brack[k:]
    if rng.random() < 0.05: blocks.append(('withdrawn', []))
    und = list(e['undeclared']); rng.shuffle(und)
    while und:
        k = rng.randint(1, len(und)); blocks.append(('undeclared', und[:k])); und = und[k:]
    if e['tie']: blocks.append(('tie', e['tie']))
    if e['nicks']: blocks.append(('nick', e['nicks']))
    ops = list(e['options'])
    if ops:
        k = rng.randint(0, len(ops))
        # [droop] options must keep their order
        blocks.append(('droop1', ops[:k]));
    rng.shuffle(blocks)
    if ops:
        blocks.append(('droop2', ops[k:]))
    for kind, arg in blocks:
        if kind == 'minus':
            t('-' + num(rng, arg))
        elif kind == 'nick':
            t('[nick'); close(list(arg)); nick_on[0] = True
        elif kind in ('droop1', 'droop2'):
            if arg or rng.random() < 0.3:
                if not arg and rng.random() < 0.5: t('[droop]')
                else: t('[droop'); close(list(arg))
        else:
            items = [ref(c) for c in arg]
            if not items and rng.random() < 0.5: t('[%s]' % kind)
            else: t('[' + kind); close(items)
    for i, (m, groups) in enumerate(e['ballots']):
        if e['ids']:
            words = e['ids'][i].split(' ')
            form = rng.random()
            if form < 0.6: words[0] = '(' + words[0]; words[-1] = words[-1] + ')'
            elif form < 0.8: words = ['('] + words + [')']
            else: words[0] = '(' + words[0]; words.append(')')
            for w in words: t(w)
        else:
            s = num(rng, m)
            t(s)
        for g in groups:
            t("=".join(ref(c) for c in g))
        t('0')
    t('0')
    for s in e['names']: T.extend(quoted_tokens(rng, s))
    T.extend(quoted_tokens(rng, e['title']))
    if e['source'] is not None: T.extend(quoted_tokens(rng, e['source']))
    if e['comment'] is not None: T.extend(quoted_tokens(rng, e['comment']))
    if rng.random() < 0.1:
        # unquoted material at the end of the file is ignored
        for _ in range(rng.randint(1, 3)):
            t(gen_word(rng, "abc0123456789-[]()=", 1, 4))
        if e['comment'] is not None and rng.random() < 0.5:
            t('"dangling')
    return T

def ws(rng, breaks_ok=True, style=0):
    if style == 0:
        return rng.choice([' ', ' ', ' ', '\n', '  ', '\t', ' \n', '\r\n']) if breaks_ok else rng.choice([' ', '  ', '\t'])
    pool = WS if breaks_ok else WS_NOBREAK
    return "".join(chr(rng.choice(pool)) for _ in range(rng.randint(1, 3)))

def comment_block(rng):
    "tokens of one nested /* ... */ comment"
    out = []
    depth = 0
    first = True
    while True:
        w = gen_word(rng, NAME_CHARS + '"', 0, 5).replace('*/', '*-')
        r = rng.random()
        if first or (r < 0.15 and depth < 4):
            w = '/*' + w; depth += 1
            if w.endswith('*/') : depth -= 1
            first = False
        elif r < 0.45:
            w = (w if not (w + '*/').startswith('/*') else 'x' + w) + '*/'; depth -= 1
        else:
            if w.startswith('/*'): w = 'x' + w
            if w == '': w = 'c'
        out.append(w)
        if depth == 0:
            return out

def layout(rng, T, style=None, comments=True):
    """-> list of pieces (separators and tokens alternating, starting and ending with a separator)
    whose concatenation is one rendering of the token sequence T"""
    if style is None: style = rng.choice([0, 0, 1])
    pieces = []
    inq = False
    def sep(first=False, last=False, inquote=False):
        s = ws(rng, True, style) if not (first and rng.random() < 0.6) else ''
        if comments and not inquote:
            while rng.random() < 0.08:
                if rng.random() < 0.5:
                    body = "".join(rng.choice(NAME_CHARS + ' "\t') for _ in range(rng.randint(0, 12)))
                    body = "".join(ch for ch in body if len(('a' + ch + 'b').splitlines()) == 1)
                    lead = s if (s != '' or not pieces) else ws(rng, True, style)
                    s = lead + '#' + body + chr(rng.choice(BREAKS if style else [10])) + ws(rng, True, style) * rng.randint(0, 1)
                    if not s or not s[-1].isspace(): s += '\n'
                else:
                    lead = s if (s != '' or not pieces) else ws(rng, True, style)
                    s = lead + "".join(w + ws(rng, True, style) for w in comment_block(rng))
        if not first and not last and s == '':
            s = ' '
        return s
    pieces.append(sep(first=True))
    for i, (kind, text) in enumerate(T):
        pieces.append(text)
        # inside a quoted string (between its opening and closing token) comments are not comments
        if kind == 'q':
            if not inq:
                inq = not (text.endswith('"'))
            else:
                inq = not text.endswith('"')
        s = sep(last=(i == len(T) - 1), inquote=inq)
        if i == len(T) - 1 and rng.random() < 0.5: s = s if rng.random() < 0.5 else ''
        pieces.append(s)
    return pieces

def render(rng, e, style=None, comments=True):
    return "".join(layout(rng, tokens_of(rng, e), style, comments))

# ------------------------------------------------------------------ malformed stream
SOUP = ['0', '1', '2', '3', '4', '10', '255', '256', '65536', '-1', '-2', '-0', '-3', '00', '01', '(', ')', '(a)', '(a', 'a)', '(b)',
        '[', ']', '[]', '[nick', '[tie', '[withdrawn', '[undeclared', '[droop', '[tie]', '[nick]', '[withdrawn]', '[bogus]', '[[tie',
        'a]', '1]', '2]', ']]', 'a', 'b', 'c', '"', '""', '"a', 'a"', '"a"', '"b"', '"t"', '#', '#x', '/*', '*/', '/*/', '/*x*/',
        '=', '1=2', '1=', '=1', 'a=b', '1=1', '2=2', '1=2=3', '٣', '１', '²', '-١', '٠', '1٢',
        '18446744073709551616', '100000000000000000000', '\ufeff', '\ufeff1', '\u200b', '"é"', 'rule=meek']
EDGE_CPS = [0x1c, 0x1d, 0x1e, 0x1f, 0x85, 0xa0, 0x2028, 0x2029, 0xfeff, 0x9, 0xa, 0xb, 0xc, 0xd, 0x20, 0x1680, 0x180e, 0x2000,
            0x200a, 0x200b, 0x202f, 0x205f, 0x3000, 0x660, 0x669, 0x6f0, 0xff10, 0xff19, 0xb2, 0xb9, 0x2070, 0x2460, 0x2160,
            0x1d7ce, 0x1d7ff, 0x10ffff, 0xd800, 0xdfff, 0x22, 0x23, 0x28, 0x29, 0x2a, 0x2d, 0x2f, 0x30, 0x31, 0x32, 0x33, 0x3d,
            0x5b, 0x5d, 0x61, 0x0, 0x7f, 0xe9]

def gen_soup(rng):
    k = rng.random()
    n = rng.randint(0, 6) if k < 0.2 else rng.randint(3, 30)
    toks = []
    if rng.random() < 0.7:
        toks += [str(rng.choice([0, 1, 2, 3, 3, 4])), str(rng.choice([0, 1, 1, 2, 3]))]
    for _ in range(n):
        toks.append(rng.choice(SOUP) if rng.random() < 0.9 else gen_word(rng, '0123456789-=[]()"#/*ab ', 1, 4).strip() or 'x')
    if rng.random() < 0.5:
        toks += ['0'] + ['"%s"' % c for c in 'abcd'[:rng.randint(0, 4)]] + rng.choice([[], ['"t"'], ['"t"', '"s"'], ['"t"', '"s"', '"c"'], ['"t']])
    style = rng.choice([0, 0, 1])
    return "".join((ws(rng, True, style) if i or rng.random() < 0.3 else '') + t for i, t in enumerate(toks)) + (ws(rng, True, style) if rng.random() < 0.5 else '')

def gen_unicode(rng):
    n = rng.randint(0, 40)
    out = []
    for _ in range(n):
        r = rng.random()
        if r < 0.6: out.append(chr(rng.choice(EDGE_CPS)))
        elif r < 0.8: out.append(rng.choice('0123 "[]()=-#/*ab\n'))
        else: out.append(chr(rng.randrange(0x110000)))
    return "".join(out)

def mutate_pieces(rng, pieces):
    """single-token mutation / insertion / deletion / truncation on a rendering given as pieces
    (odd indices are tokens)"""
    tix = list(range(1, len(pieces), 2))
    if not tix:
        return "".join(pieces)
    p = list(pieces)
    k = rng.random()
    i = rng.choice(tix)
    if k < 0.25:       # delete a token (and its separator)
        del p[i:i + 2]
    elif k < 0.5:      # replace
        p[i] = rng.choice(SOUP)
    elif k < 0.75:     # insert
        p[i:i] = [rng.choice(SOUP), ' ']
    elif k < 0.85:     # character-level edit inside a token
        t = p[i]
        j = rng.randrange(len(t) + 1)
        c = rng.choice(['', chr(rng.choice(EDGE_CPS)), rng.choice('0123"[]()=-#/*')])
        p[i] = t[:j] + c + t[j + (1 if rng.random() < 0.5 else 0):]
        if p[i] == '': p[i] = 'x'
    elif k < 0.93:     # swap two tokens
        j = rng.choice(tix); p[i], p[j] = p[j], p[i]
    else:              # duplicate a token
        p[i:i] = [p[i], ' ']
    return "".join(p)

def truncations(pieces):
    "the rendering cut before each token, and after the last"
    out = []
    for i in range(1, len(pieces), 2):
        out.append("".join(pieces[:i]))
    out.append("".join(pieces))
    return out

# hand-written corpus: every classification edge the properties name, and every defect class of DESIGN §7
def corpus_texts():
    q = lambda n: " ".join('"c%d"' % i for i in range(1, n + 1))
    T = [
        '', ' ', '\n', '\ufeff', '3', '3 2', '3 2 0', '2 1 1 1 0 0', '2 1 1 1 0 0 "a"', '2 1 1 1 0 0 "a" "b"',
        '2 1 1 1 0 1 2 0 0 "a" "b" "t"', '2 1 1 1 0 1 2 0 0 "a" "b" "t" "s" "c"', '2 1 1 1 0 1 2 0 0 "a" "b" "t" "s',
        '2 1 -9 1 1 0 1 2 0 0 "a" "b" "t"', '2 1 -2 1 2=2 1 0 1 1 0 0 "a" "b" "t"', '3 1 -2 1 2=2 0 1 1 0 1 3 0 1 1 0 0 "a" "b" "c" "t"',
        '2 1 1 1 1 0 1 2 0 0 "a" "b" "t"', '2 1 1 1=1 0 1 2 0 0 "a" "b" "t"',
        '100000000000000000000 1 1 18446744073709551616 0 0', '100000000000000000000 1 1 18446744073709551615 0 0',
        '70000 1 1 65536 0 0', '300 1 1 256 0 0', '65536 1 1 65536 0 0',
        '%s 1 1 1 0 0' % ('9' * 4300), '%s 1 1 1 0 0' % ('9' * 4301), '2 1 %s 1 0 0 "a" "b" "t"' % ('1' * 5000),
        '2 1 -%s 1 0 0' % ('1' * 4301), '2 1 1 %s 0 0' % ('0' * 4301), '2 %s 1 1 0 0' % ('٣' * 4301),
        '2 1 %s 1 0 %s 2 0 0 "a" "b" "t"' % ('9' * 4300, '9' * 4300),
        '٢ １ ١ ١ 0 1 ٢ 0 0 "a" "b" "t"', '2 1 1 ² 0 0 "a" "b" "t"', '2\u001c1\u001d1\u001e1\u001f0\u00851 2 0 0 "a" "b" "t"',
        '2 1 1 1 0 1 2 0 0 "a" "b" "t"', '\ufeff2 1 1 1 0 1 2 0 0 "a" "b" "t"', '2 1 1 1 0 1 2 0 0 "a" "b" "t" \ufeff',
        '2 1 # c\n1 1 0 /* x /* y */ z */ 1 2 0 0 "a #b" "/* b" "t */"', '2 1 1 1 0 1 2 0 0 "a" /* "b" */ "b" "t"',
        '2 1 1 1 0 1 2 0 0 "a\n#x" "b" "t"', '2 1 [nick a b] [tie b a] [withdrawn] 1 a 0 1 b=a 0 0 "A" "B" "T"',
        '2 1 [nick a a] 1 a 0 0 "A" "B" "T"', '2 1 [nick 2 1] 1 2 0 1 1 0 0 "A" "B" "T"', '2 1 [tie 1 2 1] 1 2 0 1 1 0 0 "A" "B" "T"',
        '2 1 [nick a ]] 1 1= 0 1 a 0 0 "A" "B" "T"', '2 1 [ 1 1 0 0', '2 1 [] 1 1 0 0', '2 1 [tie', '2 1 [droop x y] 1 1 0 1 2 0 0 "A" "B" "T"',
        '2 1 (a) 1 0 (b) 2 0 0 "A" "B" "T"', '2 1 (a) 1 0 (a ) 2 0 0 "A" "B" "T"', '2 1 (a) 1 0 1 2 0 0 "A" "B" "T"', '2 1 (a) 0 (b) 2 0 (c) 1 0 0 "A" "B" "T"',
        '2 1 ( a b ) 1 0 (c 2 0 0 "A" "B" "T"', '0 0 0 "t"', '0 1 0 "t"', '1 1 1 1 0 0 "a" "t"', '1 1 1 1 0 0 "a" "', '1 1 1 1 0 0 " a" "t"',
        '1 1 1 1 0 0 "a " " t "', '1 1 1 1 0 0 "a" "t" x "y', '1 1 1 1 0 0 "a" "t" "s" "c" "d', '1 1 1 1 0 0 "a" "t" "s" x',
        '2 1 -1 -1 1 2 0 0 "a" "b" "t"', '2 1 -1 [withdrawn 1] 1 2 0 0 "a" "b" "t"', '2 1 -0 1 0 0', '2 1 - 1 0 0', '2 2 -1 1 2 0 1 2 0 0 "a" "b" "t"',
        '3 1 [undeclared 3 3] 1 1 0 0', '3 1 [undeclared 3] [undeclared 2] -3 3 1 0 1 2 0 0 "a" "b" "c" "t"',
        '256 1 1 256 0 %s 0 %s "t"' % (" ".join('1 %d 0' % i for i in range(1, 256)), q(256)),
    ]
    return T

# ------------------------------------------------------------------ chunk workers (used by props/c15.py, props/c16.py)
def _features(e):
    return (min(e['n'], 10) if e['n'] < 10 else 10 + e['n'] // 16, bool(e['withdrawn']), bool(e['undeclared']), bool(e['tie']),
            bool(e['nicks']), bool(e['ids']), any(len(g) > 1 for m, gs in e['ballots'] for g in gs),
            e['source'] is not None, e['comment'] is not None, bool(e['options']))

def _run_model(texts_modes, use_model):
    if not use_model:
        return [None] * len(texts_modes)
    from common import Model
    return Model('fast').run_many([to_tokens(t, m) for t, m in texts_modes])

def overflow_signature(text, result):
    "signature of an exception-class failure (C16)"
    first = text.split()[:1]
    big = bool(first) and re.match(r'\d+$', first[0]) is not None and len(first[0]) <= 4300 and int(first[0]) >= 2 ** 64
    return dict(kind='c16-exception', exception=result[len('Raise '):] if result.startswith('Raise ') else result,
                ncand_ge_2_64=big)

def c15_chunk(args):
    """well-formed stream: abstract election -> random rendering -> implementation (and model);
    oracle: parsed attributes == the abstract election after normalisation"""
    seed, idx, n, use_model = args
    rng = rng_for(seed, 'c15-wellformed', idx)
    cases = []
    for i in range(n):
        e = gen_election(rng)
        style = rng.choice([0, 0, 1]); comments = rng.random() < 0.75
        text = "".join(layout(rng, tokens_of(rng, e), style, comments))
        mode = MODE_DATA
        if rng.random() < 0.12:
            mode = MODE_PATH
            if rng.random() < 0.7: text = '\ufeff' + text
        cases.append((e, text, mode, style, comments))
        if rng.random() < 0.15:
            # a second, independent rendering of the same election (layout, comments, ids and nickname use differ)
            st2 = rng.choice([0, 1])
            cases.append((e, "".join(layout(rng, tokens_of(rng, e), st2, True)), MODE_DATA, st2, True))
    impl = [impl_parse(t, m) for (e, t, m, s, c) in cases]
    mod = _run_model([(t, m) for (e, t, m, s, c) in cases], use_model)
    out = dict(n=len(cases), distinct=set(), violations=[], broken=[], validated=0, sample=None)
    for (e, t, m, s, c), (r, p), mm in zip(cases, impl, mod):
        out['distinct'].add(_features(e) + (m, s, c))
        want = expected_text(e)
        if r != want:
            out['violations'].append(("a well-formed ballot file is not read as the election it denotes",
                                      dict(text=t, codepoints=[ord(ch) for ch in t], mode=m, implementation=r, expected=want),
                                      dict(kind='c15-oracle', outcome=r.split('\n')[0][:40] if r.startswith('Raise') else 'ok-differs')))
        if p is not None:
            v = valid_profile(p)
            if v:
                out['violations'].append(("accepted profile violates the invariants of a valid election: " + "; ".join(v[:3]),
                                          dict(text=t, codepoints=[ord(ch) for ch in t], mode=m, complaints=v),
                                          dict(kind='c15-invalid-profile', what=v[0])))
        if mm is not None:
            out['validated'] += 1
            if mm != r:
                out['broken'].append(dict(text=t, codepoints=[ord(ch) for ch in t], mode=m, implementation=r, model=mm))
    if cases:
        e, t, m, s, c = cases[0]
        out['sample'] = dict(text=t[:400], mode=m, implementation=impl[0][0][:400], model=(mod[0] or '')[:400])
    return out

def gen_malformed(rng, n):
    "-> list of (kind, text)"
    out = []
    base = None
    while len(out) < n:
        k = rng.random()
        if k < 0.3:
            out.append(('soup', gen_soup(rng)))
        elif k < 0.45:
            out.append(('unicode', gen_unicode(rng)))
        else:
            if base is None or rng.random() < 0.2:
                e = gen_election(rng, maxcand=rng.choice([3, 6, 12]), maxlines=rng.choice([3, 8]))
                base = layout(rng, tokens_of(rng, e), None, rng.random() < 0.5)
                if rng.random() < 0.12:
                    out.extend(('truncate', t) for t in truncations(base))
                    continue
            r = rng.random()
            if r < 0.8:
                out.append(('mutate', mutate_pieces(rng, base)))
            else:
                # two edits
                t = mutate_pieces(rng, base)
                out.append(('mutate2', mutate_pieces(rng, [x for x in re.split(r'(\s+)', ' ' + t)][1:]) if rng.random() < 0.5 else t[:rng.randrange(len(t) + 1)]))
    return out

def c16_chunk(args):
    """malformed stream; oracle: ElectionProfileError or an accepted profile that is valid and that every
    rule's Election constructor takes (when the file embeds no counting options)"""
    seed, idx, n, use_model, with_corpus = args
    rng = rng_for(seed, 'c16-malformed', idx)
    cases = [('corpus', t) for t in corpus_texts()] if with_corpus else []
    cases += gen_malformed(rng, n)
    impl = [impl_parse(t, MODE_DATA) for (k, t) in cases]
    mod = _run_model([(t, MODE_DATA) for (k, t) in cases], use_model)
    out = dict(n=len(cases), distinct=set(), violations=[], broken=[], validated=0, sample=None, ctor=0, accepted=0,
               outcomes={})
    for (k, t), (r, p), mm in zip(cases, impl, mod):
        cls = r if (r.startswith('Raise ') or r == 'HANG') else 'ok'
        out['outcomes'][cls] = out['outcomes'].get(cls, 0) + 1
        key = (k, cls)
        payload = dict(text=t, codepoints=[ord(ch) for ch in t], mode=MODE_DATA, generator=k)
        if cls == 'HANG':
            out['violations'].append(("reading the text did not finish within the time budget", dict(payload), dict(kind='c16-hang')))
        elif cls not in ('ok', 'Raise ElectionProfileError'):
            out['violations'].append(("reading the text failed with %s instead of ElectionProfileError" % cls[6:],
                                      dict(payload, implementation=r), overflow_signature(t, r)))
        if p is not None:
            out['accepted'] += 1
            v = valid_profile(p)
            key = key + (min(p.nCand, 5), bool(p.withdrawn), bool(p.ballotLinesEqual), bool(p.options), p.source is not None)
            if v:
                out['violations'].append(("accepted profile violates the invariants of a valid election: " + "; ".join(v[:3]),
                                          dict(payload, complaints=v), dict(kind='c16-invalid-profile', what=v[0])))
            elif not p.options:
                cf = constructor_failures(p)
                out['ctor'] += 1
                if cf:
                    out['violations'].append(("Election constructor failed on an accepted profile: %r" % (cf[:3],),
                                              dict(payload, constructor_failures=cf),
                                              dict(kind='c16-constructor', exception=cf[0][1])))
        out['distinct'].add(key)
        if mm is not None:
            out['validated'] += 1
            if mm != r:
                out['broken'].append(dict(payload, implementation=r, model=mm))
    if cases:
        k, t = cases[-1]
        out['sample'] = dict(generator=k, text=t[:300], implementation=impl[-1][0][:300], model=(mod[-1] or '')[:300])
    return out

def tokens_chunk(args):
    "tokenizer scope: __bltBlob's yielded tokens vs Model tokenize on arbitrary texts"
    seed, idx, n, use_model = args
    rng = rng_for(seed, 'tokens', idx)
    texts = [t for (k, t) in gen_malformed(rng, n)]
    impl = [impl_tokens(t) for t in texts]
    mod = _run_model([(t, MODE_TOKENS) for t in texts], use_model)
    out = dict(n=len(texts), broken=[], validated=0)
    for t, r, mm in zip(texts, impl, mod):
        if mm is not None:
            out['validated'] += 1
            if mm != r:
                out['broken'].append(dict(text=t, codepoints=[ord(ch) for ch in t], mode=MODE_TOKENS, implementation=r, model=mm))
    return out

def run_chunks(fn, arglist, procs):
    if procs <= 1 or len(arglist) <= 1:
        return [fn(a) for a in arglist]
    import multiprocessing as mp
    with mp.get_context('fork').Pool(procs) as pool:
        return pool.map(fn, arglist, chunksize=1)

def check_unicode_tables():
    "exhaustive comparison (all 0x110000 code points) of the generated range tables with the interpreter"
    from common import VERIF
    import gen_unicode_tables as g
    path = os.path.join(VERIF, 'coq', 'Gen', 'UnicodeTables.v')
    if not os.path.exists(path):
        return ["coq/Gen/UnicodeTables.v is missing"]
    return g.check_tables(path)
