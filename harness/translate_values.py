#!/usr/bin/env python3
"""Fail-closed translator: droop/values/fixed.py, guarded.py  ->  Gallina kernels.

Regenerates /verif/coq/Gen/FixedKernels.v and GuardedKernels.v (and
RationalWrapped.v) from the *current* source under /repo on every run, so the
theorems in Props/C12.v, C13.v, C14.v are re-posed against what the code says
now.  Anything outside the supported Python subset makes the translator exit
non-zero: the dependent checks then report a broken obligation.

Representation: a value object is its raw `_value : Z`; an operator operand
that may be a Python int or a value object is `operand`; class-level state is
the record `fixed_cls` / `guarded_cls` of Model/KernelBase.v; every method is a
function into `res _` (Ok | Raise exn).  Control flow is translated by
continuation duplication (the kernels are straight-line code with a few ifs).
"""
import ast, sys, os, re, textwrap

class Unsupported(Exception):
    pass

def cname(pyname):
    "Coq identifier for a Python method name (double underscores are reserved by extraction)"
    m = re.fullmatch(r'__(\w+?)__', pyname)
    return 'dunder_' + m.group(1) if m else pyname

def fail(node, why):
    line = getattr(node, 'lineno', '?')
    raise Unsupported("line %s: %s: %s" % (line, why, ast.dump(node)[:200] if isinstance(node, ast.AST) else node))

EXN = {'ValueError', 'ZeroDivisionError', 'IndexError', 'TypeError', 'NotImplementedError', 'UsageError'}

class ClassTr:
    def __init__(self, clsname, fields, stype, stat_attrs=()):
        self.cls = clsname
        self.fields = fields          # python attr (unmangled, e.g. '__scale' or 'precision') -> coq accessor
        self.stype = stype
        self.stat_attrs = set(stat_attrs)
        self.out = []
        self.skipped_stats = 0
        self.fresh = 0

    # ---------- helpers
    def gensym(self, base):
        self.fresh += 1
        return "%s_%d" % (base, self.fresh)

    def is_clsref(self, e):
        return isinstance(e, ast.Name) and e.id in ('self', 'cls', self.cls)

    def field(self, node, attr):
        if attr in self.fields:
            return "(%s st)" % self.fields[attr]
        fail(node, "unknown class attribute %r" % attr)

    # ---------- expressions: returns (kind, text); monadic prerequisites appended to binds
    def expr(self, e, env, binds):
        if isinstance(e, ast.Constant):
            if isinstance(e.value, bool):
                return 'bool', 'true' if e.value else 'false'
            if isinstance(e.value, int):
                return 'int', "(%d)" % e.value
            if isinstance(e.value, str):
                if e.value == 'up': return 'rnd', 'RUp'
                if e.value == 'down': return 'rnd', 'RDown'
                fail(e, "string constant")
            if e.value is None:
                return 'rnd', 'RNone'
            fail(e, "constant")
        if isinstance(e, ast.Name):
            if e.id in env:
                return env[e.id]
            fail(e, "unbound name")
        if isinstance(e, ast.Attribute):
            if e.attr == '_value' and isinstance(e.value, ast.Name) and e.value.id in env:
                kind, txt = env[e.value.id]
                if kind == 'val':
                    return 'int', txt
                if kind == 'operand':
                    v = self.gensym(e.value.id + "_v")
                    binds.append((v, "operand_value %s" % txt))
                    return 'int', v
                fail(e, "._value of kind %s" % kind)
            if self.is_clsref(e.value):
                return 'int', self.field(e, e.attr)
            fail(e, "attribute")
        if isinstance(e, ast.UnaryOp):
            k, t = self.expr(e.operand, env, binds)
            if isinstance(e.op, ast.USub) and k == 'int':
                return 'int', "(- %s)" % t
            if isinstance(e.op, ast.Not):
                return 'bool', "(negb %s)" % self.as_bool(k, t, e)
            fail(e, "unary op")
        if isinstance(e, ast.BinOp):
            # format:  dfmt % (a, b[, c])
            if isinstance(e.op, ast.Mod) and isinstance(e.left, ast.Attribute) and e.left.attr == '__dfmt' \
               and self.is_clsref(e.left.value) and isinstance(e.right, ast.Tuple):
                args = [self.expr(x, env, binds) for x in e.right.elts]
                if any(k != 'int' for k, _ in args) or len(args) not in (2, 3):
                    fail(e, "format arguments")
                return 'fmt', "(Fmt%d %s)" % (len(args), " ".join(t for _, t in args))
            # sign prefix:  '-' + <formatted>
            if isinstance(e.op, ast.Add) and isinstance(e.left, ast.Constant) and e.left.value == '-':
                rk, rt = self.expr(e.right, env, binds)
                if rk != 'fmt': fail(e, "'-' + non-format")
                return 'fmt', "(FmtNeg %s)" % rt
            lk, lt = self.expr(e.left, env, binds)
            rk, rt = self.expr(e.right, env, binds)
            if lk != 'int' or rk != 'int':
                fail(e, "binop on kinds %s,%s" % (lk, rk))
            if isinstance(e.op, ast.Add): return 'int', "(%s + %s)" % (lt, rt)
            if isinstance(e.op, ast.Sub): return 'int', "(%s - %s)" % (lt, rt)
            if isinstance(e.op, ast.Mult): return 'int', "(%s * %s)" % (lt, rt)
            if isinstance(e.op, ast.FloorDiv):
                v = self.gensym("q"); binds.append((v, "pydiv %s %s" % (lt, rt))); return 'int', v
            if isinstance(e.op, ast.Mod):
                v = self.gensym("r"); binds.append((v, "pymod %s %s" % (lt, rt))); return 'int', v
            fail(e, "binary operator")
        if isinstance(e, ast.BoolOp) and isinstance(e.op, ast.And):
            parts = []
            for x in e.values:
                b2 = []
                k, t = self.expr(x, env, b2)
                if b2: fail(e, "effectful operand of 'and'")
                parts.append(self.as_bool(k, t, x))
            return 'bool', "(" + " && ".join(parts) + ")"
        if isinstance(e, ast.IfExp):
            b0 = []
            kt, tt = self.expr(e.test, env, b0)
            ka, ta = self.expr(e.body, env, b0)
            kb, tb = self.expr(e.orelse, env, b0)
            if b0 or ka != kb: fail(e, "conditional expression")
            return ka, "(if %s then %s else %s)" % (self.as_bool(kt, tt, e), ta, tb)
        if isinstance(e, ast.Compare):
            return self.compare(e, env, binds)
        if isinstance(e, ast.Call):
            return self.call(e, env, binds)
        fail(e, "expression")

    def as_bool(self, k, t, node):
        if k == 'bool': return t
        if k == 'int': return "(truthy %s)" % t
        fail(node, "truth value of kind %s" % k)

    CMP = {ast.Eq: 'Z.eqb', ast.Lt: 'Z.ltb', ast.LtE: 'Z.leb'}
    CMPSWAP = {ast.Gt: 'Z.ltb', ast.GtE: 'Z.leb'}     # a > b  is emitted as  b <? a  (lia-friendly)

    def compare(self, e, env, binds):
        operands = [e.left] + list(e.comparators)
        parts = []
        vals = [None] * len(operands)
        for i, op in enumerate(e.ops):
            a, b = operands[i], operands[i + 1]
            if isinstance(op, (ast.In, ast.NotIn)):
                ka, ta = self.expr(a, env, binds)
                if ka != 'rnd' or not isinstance(b, ast.Tuple): fail(e, "membership test")
                elts = []
                for x in b.elts:
                    kx, tx = self.expr(x, env, binds)
                    if kx != 'rnd': fail(e, "membership element")
                    elts.append(tx)
                t = "(rnd_in %s [%s])" % (ta, "; ".join(elts))
                parts.append(t if isinstance(op, ast.In) else "(negb %s)" % t)
                continue
            if vals[i] is None: vals[i] = self.expr(a, env, binds)
            if vals[i + 1] is None: vals[i + 1] = self.expr(b, env, binds)
            (ka, ta), (kb, tb) = vals[i], vals[i + 1]
            if ka == 'rnd' and kb == 'rnd' and isinstance(op, (ast.Eq, ast.NotEq)):
                t = "(rnd_eqb %s %s)" % (ta, tb)
                parts.append(t if isinstance(op, ast.Eq) else "(negb %s)" % t)
            elif ka == 'int' and kb == 'int':
                if isinstance(op, ast.NotEq):
                    parts.append("(negb (Z.eqb %s %s))" % (ta, tb))
                elif type(op) in self.CMP:
                    parts.append("(%s %s %s)" % (self.CMP[type(op)], ta, tb))
                elif type(op) in self.CMPSWAP:
                    parts.append("(%s %s %s)" % (self.CMPSWAP[type(op)], tb, ta))
                else:
                    fail(e, "comparison operator")
            else:
                fail(e, "comparison of kinds %s,%s" % (ka, kb))
        return 'bool', parts[0] if len(parts) == 1 else "(" + " && ".join(parts) + ")"

    INTDUNDER = {'__eq__': 'Z.eqb %s %s', '__ne__': 'negb (Z.eqb %s %s)', '__lt__': 'Z.ltb %s %s',
                 '__le__': 'Z.leb %s %s', '__gt__': 'Z.ltb %(b)s %(a)s', '__ge__': 'Z.leb %(b)s %(a)s'}

    def call(self, e, env, binds):
        f = e.func
        if e.keywords: fail(e, "keyword arguments")
        # constructor: Fixed(x) / Guarded(x, True) / cls(x)
        if isinstance(f, ast.Name) and f.id in (self.cls, 'cls'):
            if len(e.args) == 1:
                k, t = self.expr(e.args[0], env, binds)
                return 'val', "(init st %s false)" % self.as_operand(k, t, e)
            if len(e.args) == 2 and isinstance(e.args[1], ast.Constant) and e.args[1].value is True:
                k, t = self.expr(e.args[0], env, binds)
                if k != 'int': fail(e, "setval constructor argument")
                return 'val', "(init st (OInt %s) true)" % t
            fail(e, "constructor call")
        if isinstance(f, ast.Name) and f.id == 'abs' and len(e.args) == 1:
            k, t = self.expr(e.args[0], env, binds)
            if k != 'int': fail(e, "abs")
            return 'int', "(Z.abs %s)" % t
        if isinstance(f, ast.Name) and f.id == 'int' and len(e.args) == 1:
            k, t = self.expr(e.args[0], env, binds)
            if k != 'int': fail(e, "int()")
            return 'int', t
        if isinstance(f, ast.Name) and f.id == 'str' and len(e.args) == 1:
            k, t = self.expr(e.args[0], env, binds)
            if k != 'int': fail(e, "str()")
            return 'fmt', "(FmtInt %s)" % t
        if isinstance(f, ast.Name) and f.id == 'min' and len(e.args) == 1:
            k, t = self.expr(e.args[0], env, binds)
            if k != 'list_val': fail(e, "min()")
            v = self.gensym("m")
            binds.append((v, "py_min_by (fun a b => res_true (dunder_lt st a (OVal b))) %s" % t))
            return 'val', v
        # int(a).__op__(int(b))
        if isinstance(f, ast.Attribute) and f.attr in self.INTDUNDER and isinstance(f.value, ast.Call) \
           and isinstance(f.value.func, ast.Name) and f.value.func.id == 'int' and len(e.args) == 1:
            ka, ta = self.expr(f.value, env, binds)
            kb, tb = self.expr(e.args[0], env, binds)
            if ka != 'int' or kb != 'int': fail(e, "int dunder")
            pat = self.INTDUNDER[f.attr]
            return 'bool', "(" + (pat % dict(a=ta, b=tb) if '%(a)s' in pat else pat % (ta, tb)) + ")"
        # self.__cmp__(other)
        if isinstance(f, ast.Attribute) and f.attr == '__cmp__' and isinstance(f.value, ast.Name) \
           and f.value.id == 'self' and len(e.args) == 1:
            k, t = self.expr(e.args[0], env, binds)
            v = self.gensym("c")
            binds.append((v, "dunder_cmp st %s %s" % (env['self'][1], self.as_operand(k, t, e))))
            return 'int', v
        fail(e, "call")

    def as_operand(self, k, t, node):
        if k == 'operand': return t
        if k == 'val': return "(OVal %s)" % t
        if k == 'int': return "(OInt %s)" % t
        fail(node, "operand of kind %s" % k)

    # ---------- statements (continuation-duplicating)
    def wrap(self, binds, body):
        s = ""
        for v, m in binds:
            s += "%s <- %s ;;\n" % (v, m)
        return s + body

    def is_stats_if(self, st):
        if not isinstance(st, ast.If) or st.orelse: return False
        for b in st.body:
            if not (isinstance(b, ast.Assign) and len(b.targets) == 1 and isinstance(b.targets[0], ast.Attribute)
                    and self.is_clsref(b.targets[0].value) and b.targets[0].attr in self.stat_attrs):
                return False
        # the test may only read
        for n in ast.walk(st.test):
            if isinstance(n, ast.Call): return False
        return True

    def stmts(self, body, env, implicit):
        """translate a statement list; `implicit` is the text produced when control falls off the end"""
        if not body:
            if implicit is None: raise Unsupported("control reaches end of function without return")
            return implicit(env)
        st, rest = body[0], body[1:]
        if isinstance(st, ast.Expr) and isinstance(st.value, ast.Constant) and isinstance(st.value.value, str):
            return self.stmts(rest, env, implicit)          # docstring
        if isinstance(st, ast.Return):
            binds = []
            k, t = self.expr(st.value, env, binds)
            self.rkinds.add(k)
            return self.wrap(binds, "Ok %s" % t)
        if isinstance(st, ast.Raise):
            exc = st.exc
            name = exc.func.id if isinstance(exc, ast.Call) and isinstance(exc.func, ast.Name) else \
                   exc.id if isinstance(exc, ast.Name) else None
            if name == 'NotImplementedError': return "Raise NotImplementedErr"
            if name not in EXN: fail(st, "raise")
            return "Raise %s" % name
        if self.is_stats_if(st):
            self.skipped_stats += 1
            return "(* statistics update skipped: line %d *)\n" % st.lineno + self.stmts(rest, env, implicit)
        if isinstance(st, ast.If):
            t = st.test
            if isinstance(t, ast.Call) and isinstance(t.func, ast.Name) and t.func.id == 'isinstance' \
               and isinstance(t.args[0], ast.Name) and isinstance(t.args[1], ast.Name) and t.args[1].id == 'int':
                x = t.args[0].id
                if env.get(x, (None,))[0] != 'operand': fail(st, "isinstance on non-operand")
                xi, xv = self.gensym(x + "_i"), self.gensym(x + "_o")
                e1 = dict(env); e1[x] = ('int', xi)
                e2 = dict(env); e2[x] = ('val', xv)
                a = self.stmts(list(st.body) + rest, e1, implicit)
                b = self.stmts(list(st.orelse) + rest, e2, implicit)
                return "match %s with\n| OInt %s =>\n%s\n| OVal %s =>\n%s\nend" % (
                    env[x][1], xi, textwrap.indent(a, "  "), xv, textwrap.indent(b, "  "))
            binds = []
            k, tt = self.expr(t, env, binds)
            c = self.as_bool(k, tt, t)
            a = self.stmts(list(st.body) + rest, dict(env), implicit)
            b = self.stmts(list(st.orelse) + rest, dict(env), implicit)
            return self.wrap(binds, "if %s then\n%s\nelse\n%s" % (c, textwrap.indent(a, "  "), textwrap.indent(b, "  ")))
        if isinstance(st, ast.Assign) and len(st.targets) == 1:
            tg = st.targets[0]
            # v._value, rem = divmod(a, b)
            if isinstance(tg, ast.Tuple) and len(tg.elts) == 2 and isinstance(st.value, ast.Call) \
               and isinstance(st.value.func, ast.Name) and st.value.func.id == 'divmod' and len(st.value.args) == 2:
                binds = []
                ka, ta = self.expr(st.value.args[0], env, binds)
                kb, tb = self.expr(st.value.args[1], env, binds)
                if ka != 'int' or kb != 'int': fail(st, "divmod kinds")
                names = []
                env = dict(env)
                for el in tg.elts:
                    if isinstance(el, ast.Attribute) and el.attr == '_value' and isinstance(el.value, ast.Name) \
                       and env.get(el.value.id, (None,))[0] == 'val':
                        n = self.gensym(el.value.id); env[el.value.id] = ('val', n); names.append(n)
                    elif isinstance(el, ast.Name):
                        n = self.gensym(el.id); env[el.id] = ('int', n); names.append(n)
                    else:
                        fail(st, "divmod target")
                return self.wrap(binds, "'(%s, %s) <- pydivmod %s %s ;;\n" % (names[0], names[1], ta, tb)) + \
                    self.stmts(rest, env, implicit)
            binds = []
            k, t = self.expr(st.value, env, binds)
            env = dict(env)
            if isinstance(tg, ast.Name):
                n = self.gensym(tg.id)
                env[tg.id] = (k, n)
            elif isinstance(tg, ast.Attribute) and tg.attr == '_value' and isinstance(tg.value, ast.Name):
                if k == 'operand':
                    t = "(operand_raw %s)" % t; k = 'int'
                if k != 'int': fail(st, "assignment to ._value of kind %s" % k)
                n = self.gensym(tg.value.id)
                env[tg.value.id] = ('val', n)
            else:
                fail(st, "assignment target")
            return self.wrap(binds, "let %s := %s in\n" % (n, t)) + self.stmts(rest, env, implicit)
        if isinstance(st, ast.AugAssign):
            tg = st.target
            if isinstance(tg, ast.Attribute) and tg.attr == '_value' and isinstance(tg.value, ast.Name) \
               and env.get(tg.value.id, (None,))[0] == 'val':
                name, kind = tg.value.id, 'val'
            elif isinstance(tg, ast.Name) and env.get(tg.id, (None,))[0] == 'int':
                name, kind = tg.id, 'int'
            else:
                fail(st, "augmented assignment target")
            cur = env[name][1]
            binds = []
            k, t = self.expr(st.value, env, binds)
            if k != 'int': fail(st, "augmented assignment value")
            n = self.gensym(name)
            env = dict(env); env[name] = (kind, n)
            if isinstance(st.op, ast.Add): line = "let %s := (%s + %s) in\n" % (n, cur, t)
            elif isinstance(st.op, ast.Sub): line = "let %s := (%s - %s) in\n" % (n, cur, t)
            elif isinstance(st.op, ast.Mult): line = "let %s := (%s * %s) in\n" % (n, cur, t)
            elif isinstance(st.op, ast.FloorDiv): line = "%s <- pydiv %s %s ;;\n" % (n, cur, t)
            else: fail(st, "augmented operator")
            return self.wrap(binds, line) + self.stmts(rest, env, implicit)
        fail(st, "statement")

    # Guarded.min:   min_ = vals[0]; for val in vals[1:]: if val._value < min_._value: min_ = val; return min_
    def try_min_loop(self, fn):
        body = [s for s in fn.body if not (isinstance(s, ast.Expr) and isinstance(s.value, ast.Constant))]
        try:
            a, loop, ret = body
            assert isinstance(a, ast.Assign) and isinstance(a.targets[0], ast.Name)
            m = a.targets[0].id
            assert isinstance(a.value, ast.Subscript) and a.value.value.id == 'vals' and a.value.slice.value == 0
            assert isinstance(loop, ast.For) and loop.target.id == 'val' and not loop.orelse
            sl = loop.iter
            assert isinstance(sl, ast.Subscript) and sl.value.id == 'vals' and isinstance(sl.slice, ast.Slice)
            assert sl.slice.lower.value == 1 and sl.slice.upper is None and sl.slice.step is None
            (iff,) = loop.body
            assert isinstance(iff, ast.If) and not iff.orelse and len(iff.body) == 1
            asg = iff.body[0]
            assert isinstance(asg, ast.Assign) and asg.targets[0].id == m and asg.value.id == 'val'
            assert isinstance(ret, ast.Return) and ret.value.id == m
        except Exception:
            return None
        binds = []
        k, t = self.expr(iff.test, {'val': ('val', 'val'), m: ('val', 'acc')}, binds)
        if binds or k != 'bool': return None
        return ("match vals with\n| [] => Raise IndexError\n| x0 :: rest =>\n"
                "  Ok (fold_left (fun acc val => if %s then val else acc) rest x0)\nend" % t)

    def function(self, fn, params):
        """params: list of (pyname, kind, coqtype)"""
        self.fresh = 0
        self.rkinds = set()
        env = {}
        sig = ["(st : %s)" % self.stype]
        for a in fn.args.args:
            n = a.arg
            if n == 'cls': continue
            if n not in params: fail(fn, "unexpected parameter %s" % n)
            kind, cty = params[n]
            env[n] = (kind, n)
            sig.append("(%s : %s)" % (n, cty))
        if fn.name == '__init__':
            # self is under construction; falling off the end returns it
            env['self'] = ('val', '0')
            sig = [s for s in sig if not s.startswith("(self ")]
            body = self.stmts(fn.body, env, lambda e: "Ok %s" % e['self'][1])
            self.rkinds.add('val')
            name = 'init_r'
        else:
            name = cname(fn.name)
            body = None
            if fn.name == 'min':
                body = self.try_min_loop(fn)
                if body is not None: self.rkinds.add('val')
            if body is None:
                body = self.stmts(fn.body, env, None)
        ks = self.rkinds
        if ks <= {'val', 'int'}: rty = 'Z'
        elif ks == {'bool'}: rty = 'bool'
        elif ks == {'fmt'}: rty = 'fmt_args'
        else: fail(fn, "mixed return kinds %s" % ks)
        self.out.append("Definition %s %s : res %s :=\n%s.\n" % (name, " ".join(sig), rty, textwrap.indent(body, "  ")))
        if fn.name == '__init__':
            # total projection used by the other kernels (init never raises: proved in Proofs)
            self.out.append("Definition init (st : %s) (arg : operand) (setval : bool) : Z :=\n"
                            "  match init_r st arg setval with Ok v => v | Raise _ => 0 end.\n" % self.stype)

PARAMS = {
    'self': ('val', 'Z'), 'other': ('operand', 'operand'), 'arg': ('operand', 'operand'),
    'arg1': ('operand', 'operand'), 'arg2': ('operand', 'operand'), 'arg3': ('operand', 'operand'),
    'round': ('rnd', 'rnd'), 'setval': ('bool', 'bool'), 'vals': ('list_val', 'list Z'),
}

FIXED_FIELDS = {'precision': 'f_precision', 'display': 'f_display', '__scale': 'f_scale',
                '__scaled': 'f_scaled', '__scaledd': 'f_scaledd', '__scaledr': 'f_scaledr'}
GUARDED_FIELDS = {'precision': 'g_precision', 'guard': 'g_guard', 'display': 'g_display',
                  '__scale': 'g_scale', '__scalep': 'g_scalep', '__scaleg': 'g_scaleg',
                  '__scaled': 'g_scaled', '__scaledd': 'g_scaledd', '__scaledr': 'g_scaledr',
                  '__scaledg': 'g_scaledg', '__geps': 'g_geps'}

# emission order respects dependencies (Coq needs definitions before use)
ORDER_FIXED = ['__init__', '__add__', '__sub__', '__neg__', '__pos__', '__bool__', '__abs__', '__mul__',
               '__floordiv__', 'mul', 'div', 'muldiv', '__eq__', '__ne__', '__lt__', '__le__', '__gt__', '__ge__',
               'min', '__str__']
ORDER_GUARDED = ['__init__', '__add__', '__sub__', '__neg__', '__pos__', '__bool__', '__abs__', '__mul__',
                 '__floordiv__', 'mul', 'div', 'muldiv', '__cmp__', '__eq__', '__ne__', '__lt__', '__le__',
                 '__gt__', '__ge__', 'min', '__str__', '__hash__']

HEADER = """(* GENERATED by harness/translate_values.py from droop/values/%s -- do not edit.
   source sha256: %s *)
From Coq Require Import ZArith List Bool.
Import ListNotations.
From Droop Require Import Model.KernelBase.
Open Scope Z_scope.
Open Scope bool_scope.

"""

def translate_class(path, clsname, fields, stype, order, stats):
    import hashlib
    src = open(path).read()
    tree = ast.parse(src)
    cdef = [n for n in tree.body if isinstance(n, ast.ClassDef) and n.name == clsname]
    if len(cdef) != 1: raise Unsupported("class %s not found" % clsname)
    cdef = cdef[0]
    fns = {n.name: n for n in cdef.body if isinstance(n, ast.FunctionDef)}
    aliases = {}
    for n in cdef.body:
        if isinstance(n, ast.Assign) and isinstance(n.value, ast.Name) and n.value.id in fns:
            for t in n.targets:
                aliases[t.id] = n.value.id
    tr = ClassTr(clsname, fields, stype, stats)
    # every dunder/kernels method of the class must be known: a new operator we do not translate is a failure
    known = set(order) | {'tag', 'helps', 'initialize', '__repr__', 'report'}
    for name in fns:
        if name not in known:
            raise Unsupported("%s.%s: method not in the translated kernel list" % (clsname, name))
    for name in order:
        if name not in fns:
            raise Unsupported("%s.%s: kernel method missing from source" % (clsname, name))
        tr.function(fns[name], PARAMS)
    for a, b in sorted(aliases.items()):
        tr.out.append("Definition %s := %s.\n" % (cname(a), cname(b)))
    for need in ('__truediv__', '__div__'):
        if aliases.get(need) != '__floordiv__':
            raise Unsupported("%s.%s is not an alias of __floordiv__" % (clsname, need))
    text = HEADER % (os.path.basename(path), hashlib.sha256(src.encode()).hexdigest()) + "\n".join(tr.out)
    text += "\n(* statistics updates skipped: %d *)\n" % tr.skipped_stats
    return text, tr.skipped_stats

def rational_wrapped(path):
    """the names produced by the two `for name in "...".split(): _wrap_method(...)` loops, and the
    exact text of the class body methods we model by hand (hash-pinned)."""
    src = open(path).read()
    tree = ast.parse(src)
    names = []
    for n in tree.body:
        if isinstance(n, ast.For) and isinstance(n.iter, ast.Call) and isinstance(n.iter.func, ast.Attribute) \
           and n.iter.func.attr == 'split' and isinstance(n.iter.func.value, ast.Constant):
            base = n.iter.func.value.value.split()
            for st in n.body:
                if not (isinstance(st, ast.Expr) and isinstance(st.value, ast.Call)
                        and isinstance(st.value.func, ast.Name) and st.value.func.id == '_wrap_method'):
                    raise Unsupported("rational.py: unexpected statement in wrap loop")
                arg = st.value.args[0]
                if not (isinstance(arg, ast.BinOp) and isinstance(arg.op, ast.Mod) and isinstance(arg.left, ast.Constant)):
                    raise Unsupported("rational.py: unexpected wrap argument")
                for b in base:
                    names.append(arg.left.value % b)
    # _wrap_method must construct Rational(fraction_method(*args))
    wm = [n for n in tree.body if isinstance(n, ast.FunctionDef) and n.name == '_wrap_method']
    if len(wm) != 1: raise Unsupported("rational.py: _wrap_method not found")
    inner = [n for n in wm[0].body if isinstance(n, ast.FunctionDef)]
    ok = False
    if len(inner) == 1 and isinstance(inner[0].body[-1], ast.Return):
        r = inner[0].body[-1].value
        ok = (isinstance(r, ast.Call) and isinstance(r.func, ast.Name) and r.func.id == 'Rational'
              and len(r.args) == 1 and isinstance(r.args[0], ast.Call)
              and isinstance(r.args[0].func, ast.Name) and r.args[0].func.id == 'fraction_method')
    if not ok: raise Unsupported("rational.py: wrapper does not return Rational(fraction_method(*args))")
    # mul/div/muldiv bodies
    cdef = [n for n in tree.body if isinstance(n, ast.ClassDef) and n.name == 'Rational'][0]
    fns = {n.name: n for n in cdef.body if isinstance(n, ast.FunctionDef)}
    def ret_src(name):
        body = [s for s in fns[name].body if not (isinstance(s, ast.Expr) and isinstance(s.value, ast.Constant))]
        if len(body) != 1 or not isinstance(body[0], ast.Return): raise Unsupported("rational.%s body" % name)
        return ast.unparse(body[0].value)
    shapes = {'mul': ret_src('mul'), 'div': ret_src('div'), 'muldiv': ret_src('muldiv'), 'min': ret_src('min')}
    expect = {'mul': 'Rational.__mul__(arg1, arg2)', 'div': 'Rational.__truediv__(arg1, arg2)',
              'muldiv': 'Rational.__truediv__(Rational.__mul__(arg1, arg2), arg3)', 'min': 'min(vals)'}
    for k in expect:
        if shapes[k] != expect[k]:
            raise Unsupported("rational.%s is %r, expected %r" % (k, shapes[k], expect[k]))
    bases = [ast.unparse(b) for b in cdef.bases]
    if bases != ['Fraction']: raise Unsupported("Rational bases %r" % bases)
    out = "(* GENERATED by harness/translate_values.py from droop/values/%s -- do not edit. *)\n" % os.path.basename(path)
    out += "From Coq Require Import List String.\nImport ListNotations.\nOpen Scope string_scope.\n\n"
    out += "Definition rational_wrapped : list string :=\n  [%s].\n" % "; ".join('"%s"' % n for n in names)
    out += "\n(* Rational.mul/div/muldiv/min were checked to be exactly:\n"
    for k in expect: out += "     %s: return %s\n" % (k, expect[k])
    out += "   and _wrap_method to return Rational(fraction_method( *args)); class base: Fraction *)\n"
    return out

def main():
    repo = os.environ.get('DROOP_REPO', '/repo')
    outdir = sys.argv[1] if len(sys.argv) > 1 else '/verif/coq/Gen'
    os.makedirs(outdir, exist_ok=True)
    try:
        ftxt, _ = translate_class(os.path.join(repo, 'droop/values/fixed.py'), 'Fixed', FIXED_FIELDS,
                                  'fixed_cls', ORDER_FIXED, ())
        gtxt, nstats = translate_class(os.path.join(repo, 'droop/values/guarded.py'), 'Guarded', GUARDED_FIELDS,
                                       'guarded_cls', ORDER_GUARDED, ('maxDiff', 'minDiff'))
        if nstats != 2:
            raise Unsupported("Guarded.__cmp__: expected exactly 2 statistics updates, found %d" % nstats)
        rtxt = rational_wrapped(os.path.join(repo, 'droop/values/rational.py'))
    except (Unsupported, SyntaxError, KeyError, AttributeError, IndexError) as ex:
        sys.stderr.write("TRANSLATOR-FAIL: %s: %s\n" % (type(ex).__name__, ex))
        return 2
    changed = False
    for name, txt in (('FixedKernels.v', ftxt), ('GuardedKernels.v', gtxt), ('RationalWrapped.v', rtxt)):
        p = os.path.join(outdir, name)
        old = open(p).read() if os.path.exists(p) else None
        if old != txt:
            open(p, 'w').write(txt); changed = True
    print("translated: changed=%s" % changed)
    return 0

if __name__ == '__main__':
    sys.exit(main())
