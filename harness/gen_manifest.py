#!/usr/bin/env python3
"""Writes MANIFEST.json from the table below (kept in one place so it stays valid)."""
import json, os
V = os.path.dirname(os.path.dirname(os.path.abspath(__file__)))
CHECKS = {
 'C12': dict(
   text="Machine-checked Coq theorems (13, axiom-free) about the Fixed kernels *regenerated from values/fixed.py on every run* state C12 for all operands, signs and precisions: exact +,-,neg,abs,*int; mul/div/muldiv/*// = floor of the exact rational at p places, +1 ulp iff round-up and inexact; comparisons = exact comparisons; integer = zero places; Rational = Q and class closure from the regenerated wrap list. Unbounded quantifiers need proof; the tie to the code is the translator plus a differential run of implementation vs extracted kernels vs a Fraction oracle.",
   note="Trusted: Coq kernel, the ast translator, extraction (cross-checked fast vs ref), CPython int/Fraction semantics. fractions.Fraction itself is trusted for Rational.",
   technique="Coq proof over kernels regenerated from source + differential correspondence", ref="DESIGN.md §6 C12"),
}
CHECKS.update({
 'C13': dict(
   text="Coq theorems on the Guarded kernels regenerated from values/guarded.py: exactly one of <,==,> for every pair; == iff the stored values differ by less than half a unit of the declared precision, else ordered as stored; with guard=0 every kernel equals the Fixed kernel of the same precision, the Guarded instance the count model runs on IS the Fixed instance (record equality by functional extensionality) and therefore every count of the model has the identical trace; with guard>0 every multiplicative kernel is the floor at p+g places (the proved part of 'quasi-exact = exact'; the whole-count claim is searched by running guarded vs rational). Tie: translator + differential runs (operations and whole counts).",
   note="Trusted: Coq kernel, translator, extraction, stdlib axiom functional_extensionality_dep (C13_guard0_instance/_every_count only), the hand-written count model (tied to the code by full-trace correspondence). Clause (c) is partial: not a theorem of the code as worded (DESIGN C13).",
   technique="Coq proof over regenerated kernels + record equality transporting whole counts + differential correspondence", ref="DESIGN.md §6 C13"),
 'C14': dict(
   text="Coq theorems on the __str__ kernels regenerated from fixed.py/guarded.py (and the hand model of Rational.__str__): for every value, precision, guard and display the integers handed to the '%d.%0Nd' format denote exactly floor(x*10^d + 1/2) (half-up), every field fits its zero-padded width, and a '-' is produced only for a value below zero. The % formatting step is modelled by render_fmt and tied to Python by differential runs on printed strings plus an oracle that parses the printed text back.",
   note="Trusted: Coq kernel, translator, Python's % operator (modelled, not verified). String level is false for Guarded precision=0 display>0 (open finding K6, refuted Example in Props/C14.v).",
   technique="Coq proof over regenerated __str__ kernels + differential correspondence on printed strings", ref="DESIGN.md §6 C14"),
 'C20': dict(
   text="The only process-global state a count reads is the class-level state of the arithmetic classes. In the model it is the argument of the arithmetic instance; the one component that can be stale (Guarded __scaledg) is proved irrelevant: the Guarded instance and the trace of every count are equal for all stale values (Coq, via functional extensionality). Tie: histories of earlier elections run in one process vs fresh-process results (report, dump, JSON byte-equal).",
   note="Trusted: Coq kernel, stdlib axiom functional_extensionality_dep, the hand model of initialize() (which fields are assigned on which branch), tied by the history driver; interpreter-level state outside the three classes is not modelled.",
   technique="Coq proof (instance equality transporting whole counts) + history differential testing", ref="DESIGN.md §6 C20"),
 'C15': dict(
   text="Hand-written executable Coq model of the BLT reader (tokenizer, parser, options, BallotLine, __validate, defaults; code points as integers; Unicode whitespace / line-boundary / decimal-digit tables regenerated from the running interpreter and compared on all 0x110000 code points). Machine-checked, axiom-free theorems: the raw tokens and the tokens the reader yields do not depend on which Unicode whitespace / line boundaries separate them (all layouts); # comments and nested /* */ comment runs are skipped (tok_line level); for the core format (numbers in any digits int() accepts, -n withdrawals, multipliers, equal rankings, quoted multi-word names, title/source/comment, trailing junk) every token rendering of every valid abstract election, under every whitespace layout, parses to exactly its normal form (withdrawn stripped, emptied ballots dropped, total = sum of kept multipliers). Bracket options, nicknames and ballot ids are not covered by the token-level theorem (labelled _partial); they are covered by the differential run: random abstract elections x random renderings, implementation vs model vs the abstract election.",
   note="Trusted: Coq kernel, extraction, the table generator (checked exhaustively against the interpreter each run), the harness generators/oracle, CPython str/re/int semantics, the utf-8-sig codec. The link model<->code is differential testing.",
   technique="Coq proof over a hand model + regenerated Unicode tables + differential correspondence with an abstract-election oracle", ref="DESIGN.md §6 C15"),
 'C16': dict(
   text="On the same model: machine-checked, axiom-free theorems that reading any text whatsoever (total function, structurally recursive: no hang) yields a profile satisfying valid_profile or ElectionProfileError, the only other reachable outcome being OverflowError when the file declares >= 2^64 candidates (refuted witness + open finding KP1; no UnboundLocalError / ValueError / KeyError / IndexError / StopIteration branch is reachable); every accepted profile is valid (ranges, no withdrawn/repeated candidate in a ranking, seats and ballot-count bounds, total = sum of multipliers, names/order/tie/nick defined exactly on 1..nCand, tie and nick injective); the profile lookups of Election.__init__ cannot fail on a valid profile. Tie to the code: malformed-text stream (corpus, token soups, truncation at every token, single-token edits, arbitrary Unicode) through implementation and model, plus valid_profile and all 11 rule constructors on the implementation.",
   note="Trusted as for C15. The constructor clause is proved only for the profile-dependent lookups; the rest is tested on the implementation. Implementation-side 'never hangs' is a 20 s per-case budget.",
   technique="Coq proof over a hand model (outcome type with every exception explicit) + differential correspondence + implementation-side oracles", ref="DESIGN.md §6 C16"),
})
NOT_YET = {}
def main():
    props = [json.loads(l) for l in open(os.path.join(V, 'properties.jsonl'))]
    checks = []
    for p in props:
        pid = p['id']
        if pid not in CHECKS: continue
        c = CHECKS[pid]
        checks.append(dict(property_id=pid, quick_cmd="./check %s --tier quick" % pid,
                           thorough_cmd="./check %s --tier thorough" % pid,
                           evidence_file="/verif/evidence/%s.json" % pid,
                           replay_cmd_template="./check %s --replay {path}" % pid, engine="coq-model",
                           level_claimed=dict(category="proof", text=c['text'], design_ref=c['ref']),
                           level_note=c['note'], technique=c['technique']))
    na = [dict(property_id=p['id'], reason=NOT_YET.get(p['id'], "check not built yet in this round (model/proofs under construction; see DESIGN.md §9)"))
          for p in props if p['id'] not in CHECKS]
    m = dict(version=1, setup_cmd="cd /verif && ./build.sh",
             hooks=dict(guard="DROOP_VERIF", enable="no source hooks are needed: the harness observes droop from outside (wrapping Election.logAction, sys.settrace); the guard name is reserved", 
                        baseline_off_cmd="cd /repo && /venv/bin/python -m pytest -ra -q -p no:cacheprovider --timeout=900 --continue-on-collection-errors",
                        source_commits=[], add_only=True),
             engines=[dict(name="coq-model", path="/verif/coq", serves_properties=sorted(CHECKS),
                           kind_free_text="Coq 8.16 development (hand model + kernels regenerated from source), extracted to OCaml and run against the implementation by /verif/harness")],
             checks=checks, not_applicable=na,
             notes="See DESIGN.md. known findings: /verif/known_findings.json; seeded changes: /verif/seeded/")
    json.dump(m, open(os.path.join(V, 'MANIFEST.json'), 'w'), indent=1)
    print("MANIFEST.json: %d checks, %d not_applicable" % (len(checks), len(na)))
if __name__ == '__main__':
    main()
