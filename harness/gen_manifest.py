#!/usr/bin/env python3
"""Writes MANIFEST.json from the table below (kept in one place so it stays valid)."""
import json, os
V = os.path.dirname(os.path.dirname(os.path.abspath(__file__)))
CHECKS = {
 'C12': dict(
   text="Machine-checked Coq theorems (13, axiom-free) about the Fixed kernels *regenerated from values/fixed.py on every run* state C12 for all operands, signs and precisions: exact +,-,neg,abs,*int; mul/div/muldiv/*// = floor of the exact rational at p places, +1 ulp iff round-up and inexact; comparisons = exact comparisons; integer = zero places; Rational = Q and class closure from the regenerated wrap list. Unbounded quantifiers need proof; the tie to the code is the translator plus a differential run of implementation vs extracted kernels vs a Fraction oracle.",
   note="Trusted: Coq kernel, the ast translator, extraction (cross-checked fast vs ref), CPython int/Fraction semantics. fractions.Fraction itself is trusted for Rational.",
   technique="Coq proof over kernels regenerated from source + differential correspondence", ref="DESIGN.md §6 C12"),
}
NOT_YET = {}
def main():
    props = [json.loads(l) for l in open(os.path.join(V, 'properties.jsonl'))]
    checks = []
    for p in props:
        pid = p['id']
        if pid not in CHECKS: continue
        c = CHECKS[pid]
        checks.append(dict(property_id=pid, quick_cmd="./check %s --tier quick" % pid,
                           thorough_cmd="./check %s --tier thorough" % pid,
                           evidence_file="/verif/evidence/%s.json" % pid,
                           replay_cmd_template="./check %s --replay {path}" % pid, engine="coq-model",
                           level_claimed=dict(category="proof", text=c['text'], design_ref=c['ref']),
                           level_note=c['note'], technique=c['technique']))
    na = [dict(property_id=p['id'], reason=NOT_YET.get(p['id'], "check not built yet in this round (model/proofs under construction; see DESIGN.md §9)"))
          for p in props if p['id'] not in CHECKS]
    m = dict(version=1, setup_cmd="cd /verif && ./build.sh",
             hooks=dict(guard="DROOP_VERIF", enable="no source hooks are needed: the harness observes droop from outside (wrapping Election.logAction, sys.settrace); the guard name is reserved", 
                        baseline_off_cmd="cd /repo && /venv/bin/python -m pytest -ra -q -p no:cacheprovider --timeout=900 --continue-on-collection-errors",
                        source_commits=[], add_only=True),
             engines=[dict(name="coq-model", path="/verif/coq", serves_properties=sorted(CHECKS),
                           kind_free_text="Coq 8.16 development (hand model + kernels regenerated from source), extracted to OCaml and run against the implementation by /verif/harness")],
             checks=checks, not_applicable=na,
             notes="See DESIGN.md. known findings: /verif/known_findings.json; seeded changes: /verif/seeded/")
    json.dump(m, open(os.path.join(V, 'MANIFEST.json'), 'w'), indent=1)
    print("MANIFEST.json: %d checks, %d not_applicable" % (len(checks), len(na)))
if __name__ == '__main__':
    main()
