#!/usr/bin/env python3
"""Writes MANIFEST.json from the table below (kept in one place so it stays valid)."""
import json, os
V = os.path.dirname(os.path.dirname(os.path.abspath(__file__)))
CHECKS = {
 'C12': dict(
   text="Machine-checked Coq theorems (13, axiom-free) about the Fixed kernels *regenerated from values/fixed.py on every run* state C12 for all operands, signs and precisions: exact +,-,neg,abs,*int; mul/div/muldiv/*// = floor of the exact rational at p places, +1 ulp iff round-up and inexact; comparisons = exact comparisons; integer = zero places; Rational = Q and class closure from the regenerated wrap list. Unbounded quantifiers need proof; the tie to the code is the translator plus a differential run of implementation vs extracted kernels vs a Fraction oracle.",
   note="Trusted: Coq kernel, the ast translator, extraction (cross-checked fast vs ref), CPython int/Fraction semantics. fractions.Fraction itself is trusted for Rational.",
   technique="Coq proof over kernels regenerated from source + differential correspondence", ref="DESIGN.md §6 C12"),
}
CHECKS.update({
 'C13': dict(
   text="Coq theorems on the Guarded kernels regenerated from values/guarded.py: exactly one of <,==,> for every pair; == iff the stored values differ by less than half a unit of the declared precision, else ordered as stored; with guard=0 every kernel equals the Fixed kernel of the same precision, the Guarded instance the count model runs on IS the Fixed instance (record equality by functional extensionality) and therefore every count of the model has the identical trace; with guard>0 every multiplicative kernel is the floor at p+g places (the proved part of 'quasi-exact = exact'; the whole-count claim is searched by running guarded vs rational). Tie: translator + differential runs (operations and whole counts).",
   note="Trusted: Coq kernel, translator, extraction, stdlib axiom functional_extensionality_dep (C13_guard0_instance/_every_count only), the hand-written count model (tied to the code by full-trace correspondence). Clause (c) is partial: not a theorem of the code as worded (DESIGN C13).",
   technique="Coq proof over regenerated kernels + record equality transporting whole counts + differential correspondence", ref="DESIGN.md §6 C13"),
 'C14': dict(
   text="Coq theorems on the __str__ kernels regenerated from fixed.py/guarded.py (and the hand model of Rational.__str__): for every value, precision, guard and display the integers handed to the '%d.%0Nd' format denote exactly floor(x*10^d + 1/2) (half-up), every field fits its zero-padded width, and a '-' is produced only for a value below zero. The % formatting step is modelled by render_fmt and tied to Python by differential runs on printed strings plus an oracle that parses the printed text back.",
   note="Trusted: Coq kernel, translator, Python's % operator (modelled, not verified). String level is false for Guarded precision=0 display>0 (open finding K6, refuted Example in Props/C14.v).",
   technique="Coq proof over regenerated __str__ kernels + differential correspondence on printed strings", ref="DESIGN.md §6 C14"),
 'C20': dict(
   text="Election construction is modelled on an explicit class state (one slot per class attribute any initialize() assigns): for all earlier states g, g' construction gives the same outcome, the same store and the same value of every attribute that can be read afterwards; the state after construction is exactly the argument of the model's arithmetic instance. The only process-global state a count reads is the class-level state of the arithmetic classes. In the model it is the argument of the arithmetic instance; the one component that can be stale (Guarded __scaledg) is proved irrelevant: the Guarded instance and the trace of every count are equal for all stale values (Coq, via functional extensionality). Tie: histories of earlier elections run in one process vs fresh-process results (report, dump, JSON byte-equal).",
   note="Trusted: Coq kernel, stdlib axiom functional_extensionality_dep, the hand model of initialize() (which fields are assigned on which branch), tied by the history driver; interpreter-level state outside the three classes is not modelled.",
   technique="Coq proof (instance equality transporting whole counts) + history differential testing", ref="DESIGN.md §6 C20"),
 'C15': dict(
   text="Hand-written executable Coq model of the BLT reader (tokenizer, parser, options, BallotLine, __validate, defaults; code points as integers; Unicode whitespace / line-boundary / decimal-digit tables regenerated from the running interpreter and compared on all 0x110000 code points). Machine-checked, axiom-free theorems: the raw tokens and the tokens the reader yields do not depend on which Unicode whitespace / line boundaries separate them (all layouts); # comments and nested /* */ comment runs are skipped (tok_line level); for the core format (numbers in any digits int() accepts, -n withdrawals, multipliers, equal rankings, quoted multi-word names, title/source/comment, trailing junk) every token rendering of every valid abstract election, under every whitespace layout, parses to exactly its normal form (withdrawn stripped, emptied ballots dropped, total = sum of kept multipliers). Bracket options, nicknames and ballot ids are not covered by the token-level theorem (labelled _partial); they are covered by the differential run: random abstract elections x random renderings, implementation vs model vs the abstract election.",
   note="Trusted: Coq kernel, extraction, the table generator (checked exhaustively against the interpreter each run), the harness generators/oracle, CPython str/re/int semantics, the utf-8-sig codec. The link model<->code is differential testing.",
   technique="Coq proof over a hand model + regenerated Unicode tables + differential correspondence with an abstract-election oracle", ref="DESIGN.md §6 C15"),
 'C16': dict(
   text="On the same model: machine-checked, axiom-free theorems that reading any text whatsoever (total function, structurally recursive: no hang) yields a profile satisfying valid_profile or ElectionProfileError, the only other reachable outcome being OverflowError when the file declares >= 2^64 candidates (refuted witness + open finding KP1; no UnboundLocalError / ValueError / KeyError / IndexError / StopIteration branch is reachable); every accepted profile is valid (ranges, no withdrawn/repeated candidate in a ranking, seats and ballot-count bounds, total = sum of multipliers, names/order/tie/nick defined exactly on 1..nCand, tie and nick injective); the profile lookups of Election.__init__ cannot fail on a valid profile. Tie to the code: malformed-text stream (corpus, token soups, truncation at every token, single-token edits, arbitrary Unicode) through implementation and model, plus valid_profile and all 11 rule constructors on the implementation.",
   note="Trusted as for C15. The constructor clause is proved only for the profile-dependent lookups; the rest is tested on the implementation. Implementation-side 'never hangs' is a 20 s per-case budget.",
   technique="Coq proof over a hand model (outcome type with every exception explicit) + differential correspondence + implementation-side oracles", ref="DESIGN.md §6 C16"),
})
CHECKS.update({
 'C01': dict(
   text="Whole-run Coq theorem (every rule, arithmetic, profile, fuel; axiom-free): a count that ends normally leaves no candidate hopeful -- everyone is elected, defeated or withdrawn (Hoare logic over the rule command trees: every exit passes a settling micro-operation). Termination within budget, winners = min(seats, electable) and 'withdrawn untouched' are decided by full-outcome correspondence (model vs code) plus the C01 oracle on every generated election; withdrawn candidates stay withdrawn in every snapshot (whole-run forward-status theorem, all rules but QPQ); the crash outcomes of meek/warren under guarded arithmetic with guard>0 are reproduced inside Coq (refuted Example) and listed as open findings K2/K14 (the IndexError K3 is repaired: fix F11, with a theorem that the tied list is never empty).",
   note="Trusted: Coq kernel, hand model of the 8 rule modules tied by trace correspondence, extraction, harness. Termination and seat count are _partial (oracle + correspondence, CPU budget for rational Meek).",
   technique="Coq Hoare-logic proof over a hand model + differential correspondence + oracle", ref="DESIGN.md §6 C01"),
 'C02': dict(
   text="WHOLE-RUN Coq theorem for all Gregory-family rules (wigm, wigm-prf, wigm-prf-batch, scotland, cfer, cfer-batch, mpls) under Fixed / integer / Guarded(guard 0), every well-formed profile, every fuel, axiom-free: in every state a count reaches without crashing and in every snapshot it has recorded, tallies + non-transferable never exceed the ballots cast and no tally is negative (Hoare-logic proof over the rule command trees of the invariant 'tally = value of the ballots standing with the candidate', Proofs/Conserve.v + ConserveCount.v: ballot loop, surplus transfer with both truncations, exclusions, sure-loser batches chosen in one statement group and transferred in another, CfER's transfer of every pending surplus in one round, Minneapolis' elect-and-transfer). Per micro-operation for all integer-carrier arithmetics: a transferred ballot is credited exactly once at unchanged weight; re-weighted ballots are worth at most the surplus and each loses < 2 units; a Meek/Warren distribution conserves votes exactly. WHOLE-RUN for meek and warren (Guarded with any guard, strict and equal-rank ballots): every 'iterate' snapshot has tallies + residual = ballots cast exactly (Proofs/MeekRun.v + MeekCount.v). meek-prf, QPQ, rational arithmetic, Gregory under Guarded with guard>0, and the < 2 ulp loss bound per action: values-scope correspondence + conservation oracle.",
   note="Whole-run for the Gregory family and for meek/warren iterations; meek-prf/QPQ _partial (per-distribution theorem + oracle + correspondence). The profile hypothesis wf_profile (distinct ids, non-negative multipliers, rankings name non-withdrawn candidates) is what the reader model proves of accepted files (C16) but the two models are not yet linked inside Coq.",
   technique="Coq whole-run Hoare proof over a hand model + per-operation theorems + differential correspondence + oracle", ref="DESIGN.md §6 C02"),
 'C03': dict(
   text="The Coq model of each statutory rule is the published procedure written as a command tree over the proved decimal arithmetic; the ENTIRE stage-by-stage trace of the implementation (actions, messages, quota, every tally to the last digit, every ballot weight) must equal it on every generated election; clause theorems (quota A.1/46, transfer values B.3+D.4/48(3), lowest candidate, tie-break) are proved for the statutory parameters; wigm(fixed,4) vs wigm-prf histories are compared directly.",
   note="The procedure text itself is transcribed by hand into the model (reviewable against the '##' comments); a disagreement is reported with the first differing stage as the failing history.",
   technique="Coq clause theorems + full-trace differential correspondence", ref="DESIGN.md §6 C03"),
 'C04': dict(
   text="Coq theorems: the quota each rule's calcQuota computes is the prescribed one for Fixed/integer/Guarded (floor(n*S/(s+1))+1 raw units; (floor(n/(s+1))+1) whole votes for Scottish/Minneapolis/integer_quota; Meek family from the votes still credited). 'Whoever reaches it is elected, never excluded while holding it': quota-scope correspondence + oracle on near-quota elections.",
   note="Election-on-quota clause is _partial (oracle + correspondence). Rational: oracle only.",
   technique="Coq proof of quota formulas + differential correspondence + oracle", ref="DESIGN.md §6 C04"),
 'C05': dict(
   text="No general theorem (coalition invariant not attempted); machine-checked: the property is false of the faithful model for Warren (refuted Example evaluated inside Coq, open finding K4). Decided otherwise by the exhaustive coalition oracle (every subset S and k on every generated election of <= 9 candidates) and final-scope correspondence.",
   note="_partial: oracle + correspondence; the refutation is a Coq evaluation of the model on the witness.",
   technique="Coq refutation by evaluation + exhaustive-coalition oracle + differential correspondence", ref="DESIGN.md §6 C05"),
 'C06': dict(
   text="WHOLE-RUN Coq theorem (wigm, wigm-prf, wigm-prf-batch, scotland, cfer, cfer-batch, mpls; Fixed / integer / Guarded guard 0; axiom-free): in every state reached without crashing every candidate's tally IS the sum of the values of the ballots standing with it (except elected candidates whose surplus has been transferred, who hold no ballot), weights are non-negative, a transfer-pending candidate holds at least the quota. Per micro-operation: transfer value = the prescribed truncated quotient (two truncations; Scottish one), between 0 and the old value, never rounded up, loses < 2 units; transfer() leaves a ballot with the first continuing candidate of its ranking at unchanged weight and credits exactly its value. Every ballot's index and raw weight at every action is compared with the model (ballots scope) and checked by the P1/P3/P4 oracle, which also requires every ballot of a transferring candidate to leave at the prescribed value (a zero surplus included).",
   note="Whole-run for every Gregory-family rule under non-exact integer-carrier arithmetic; rational and Guarded guard>0: oracle + ballot-level correspondence.",
   technique="Coq whole-run Hoare proof + per-operation theorems + ballot-level differential correspondence + oracle", ref="DESIGN.md §6 C06"),
 'C07': dict(
   text="Coq theorems per micro-operation: candidates offered for single exclusion are exactly the hopefuls at the minimum tally; breakTie picks among the tied, silently for one, else logs exactly one tie action naming set and choice; py_sort returns a permutation for any (even non-transitive) comparison; the Meek/Warren defeat step never offers an empty list to breakTie (Fixed, Guarded, Rational; after fix F11). Batches, largest-surplus-first, Scottish prior stage, tie-order independence: oracle (incl. re-running under a permuted tie order) + values-scope correspondence.",
   note="_partial for whole-run and for batches; Guarded fuzzy comparisons covered by correspondence only.",
   technique="Coq proof per micro-operation + differential correspondence + metamorphic oracle", ref="DESIGN.md §6 C07"),
 'C08': dict(
   text="WHOLE-RUN Coq theorem for meek and warren (Fixed / integer / Guarded with ANY guard, strict and equal-rank ballots, every well-formed profile, every fuel, axiom-free): every 'iterate' snapshot a count records has tallies + residual = ballot papers cast, exactly (Hoare proof over the meek command tree of the invariant 'candidates that are neither hopeful nor elected hold no votes and a zero keep factor; multipliers sum to the papers cast'; the distribution theorem covers strict ballots and the recursive equal-rank split; Proofs/MeekRun.v + MeekCount.v). Per micro-operation: a Meek/Warren/meek-prf distribution over strict ballots credits candidates + residual with exactly the ballots' multipliers (per ballot and over all ballots). The keep-factor update of meek/warren never leaves an elected candidate above 1 (theorem for Fixed/integer/Guarded guard 0, after fix F12 a1b6d58 which the thorough tier's counter-examples prompted; the former witness is re-evaluated inside Coq); the lower bound kf > 0 fails under guarded arithmetic with guard>0 (open finding K1). Exits, equal rankings, meek-prf kf range, non-negativity: values-scope correspondence + oracle.",
   note="Conservation clause whole-run for meek/warren; kf range, exits and meek-prf _partial; K1 open finding.",
   technique="Coq whole-run Hoare proof over a hand model + per-operation theorems + differential correspondence + oracle", ref="DESIGN.md §6 C08"),
 'C09': dict(
   text="Whole-run Coq theorem (all rules, arithmetics, profiles, fuel): round numbers in the record never decrease and every recorded round lies between 0 and the current round (monotone-history preorder lifted by exec_steps); for every rule except QPQ (whose restart un-elects, as the property allows) statuses only move forward between ANY two snapshots of a count that ends normally, from the initial statuses to each snapshot and from each snapshot to the final statuses (hopeful -> elected[pending -> not pending] | defeated; withdrawn fixed). Seats are never over-committed: whole-run theorem for wigm, wigm-prf, wigm-prf-batch and scotland under Fixed/integer/Guarded(guard 0) -- a count that ends normally has elected at most `seats` candidates (every winner of the main loop holds the quota, the quota exceeds ballots/(seats+1), no votes are created, the epilogues elect only while seats remain). The bound is FALSE for meek under guarded arithmetic with guard>0 (refuted Example inside Coq: 4 elected for 3 seats; open finding K13). Seat bounds for cfer/mpls/Meek/QPQ, under-commitment, QPQ transitions and crashed runs: states-scope correspondence + transition oracle on every pair of consecutive snapshots.",
   note="Seat-bound clause _partial (oracle + correspondence + machine-checked refutation for meek/guarded).",
   technique="Coq whole-run proof (monotone history) + differential correspondence + oracle", ref="DESIGN.md §6 C09"),
 'C10': dict(
   text="Coq: two texts laying out the same tokens with any Unicode whitespace/line breaks parse to the same result (corollary of the C15 tokenizer theorems; comments via the C15 comment lemmas), and the count is a function of the profile. Line order / multiplier split-merge / nicknames: metamorphic oracle (re-presented file must give byte-identical record, report, dump) + full-trace correspondence. Open finding K7 (Guarded statistics in the report depend on multipliers).",
   note="_partial: the bag-equality simulation is an open obligation.",
   technique="Coq proof (layout) + metamorphic oracle + differential correspondence", ref="DESIGN.md §6 C10"),
 'C11': dict(
   text="Coq: accepted profiles contain no withdrawn candidate in any ranking; withdrawn candidates start Withdrawn and are never among the hopefuls at the start. Renumbering equivariance and 'withdrawn == deleted': metamorphic oracle on every generated election + values-scope correspondence.",
   note="_partial: the equivariance simulations are open obligations.",
   technique="Coq supporting lemmas + metamorphic oracle + differential correspondence", ref="DESIGN.md §6 C11"),
 'C18': dict(
   text="Coq model of report(), dump() and json() (exact text, incl. JSON escaping) with theorems: dump rows of non-round/log/iterate actions have the header's width and carry the record's codes and str(tally); the JSON tree carries the record's tags, quotas, totals and per-candidate state/code/vote; report blocks list exactly the snapshot's candidates by status; dump and JSON agree. Renderings are compared byte for byte with the implementation; audit-trail oracle (first/last action, elect/defeat vs status changes, final step) on the implementation. Open finding K8 (3-cell dump rows).",
   note="Whole-run audit-trail clauses are oracle + correspondence (_partial).",
   technique="Coq proof over a hand model of the renderers + byte-exact differential correspondence + oracles", ref="DESIGN.md §6 C18"),
 'C19': dict(
   text="Coq: every micro-operation of every rule only appends to the action list; an interrupted run (same command tree over (budget,state), aborting when the budget is spent) ends, for every interruption point, fuel, rule, arithmetic and profile, in a state whose actions are a prefix of the uninterrupted run's (generic theorem + instance). Python-level delivery: KeyboardInterrupt injected with sys.settrace at line events of package code; report/dump/json(intr=True) must succeed, be marked once, JSON valid, actions a prefix.",
   note="_partial: interrupts inside C-level calls / between bytecodes are covered only at line granularity by the driver.",
   technique="Coq whole-run proof (prefix property) + fault injection at every line event", ref="DESIGN.md §6 C19"),
})
CHECKS['C17'] = dict(
   text="Coq model of the option store (normalize, update, getopt, setopt with allowed, unused, overrides, record, parse), of every rule's options() and of ArithmeticClass/initialize, with axiom-free theorems: getopt = first of force, cmd, file, default that has the key; record()['options'] (computed separately) agrees with getopt on every key; setopt/unused/overrides characterised; no rule writes the cmd or file layer; for every statutory rule the whole effective configuration (rule parameters, arithmetic class, every class-attribute assignment) is a constant independent of the supplied layers and construction never raises. Tie: random four-layer assignments x all rules through implementation and model; whole-count immunity by paired runs (statutory rule with and without perturbing options from both sources).",
   note="Generator envelope: ASCII option strings <= 12 chars, |int| <= 40. Count-level immunity follows because the count is a function of the configuration (the model takes it as its only input); it is additionally tested on the implementation.",
   technique="Coq proof over a hand model of options/initialize + differential correspondence + paired-run oracle", ref="DESIGN.md §6 C17")
NOT_YET = {}
def main():
    props = [json.loads(l) for l in open(os.path.join(V, 'properties.jsonl'))]
    checks = []
    for p in props:
        pid = p['id']
        if pid not in CHECKS: continue
        c = CHECKS[pid]
        checks.append(dict(property_id=pid, quick_cmd="./check %s --tier quick" % pid,
                           thorough_cmd="./check %s --tier thorough" % pid,
                           evidence_file="/verif/evidence/%s.json" % pid,
                           replay_cmd_template="./check %s --replay {path}" % pid, engine="coq-model",
                           level_claimed=dict(category="proof", text=c['text'], design_ref=c['ref']),
                           level_note=c['note'], technique=c['technique']))
    na = [dict(property_id=p['id'], reason=NOT_YET.get(p['id'], "check not built yet in this round (model/proofs under construction; see DESIGN.md §9)"))
          for p in props if p['id'] not in CHECKS]
    m = dict(version=1, setup_cmd="cd /verif && ./build.sh",
             hooks=dict(guard="DROOP_VERIF", enable="no source hooks are needed: the harness observes droop from outside (wrapping Election.logAction, sys.settrace); the guard name is reserved", 
                        baseline_off_cmd="cd /repo && /venv/bin/python -m pytest -ra -q -p no:cacheprovider --timeout=900 --continue-on-collection-errors",
                        source_commits=[], add_only=True),
             engines=[dict(name="coq-model", path="/verif/coq", serves_properties=sorted(CHECKS),
                           kind_free_text="Coq 8.16 development (hand model + kernels regenerated from source), extracted to OCaml and run against the implementation by /verif/harness")],
             checks=checks, not_applicable=na,
             notes="See DESIGN.md. known findings: /verif/known_findings.json; seeded changes: /verif/seeded/")
    json.dump(m, open(os.path.join(V, 'MANIFEST.json'), 'w'), indent=1)
    print("MANIFEST.json: %d checks, %d not_applicable" % (len(checks), len(na)))
if __name__ == '__main__':
    main()
