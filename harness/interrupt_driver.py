"""Interrupt driver (C19): raise KeyboardInterrupt at the k-th executed line of package code during
Election.count(), then ask for report/dump/json(intr=True)."""
import sys, os, json, traceback, multiprocessing
from common import import_droop, REPO

MARK_LOG = '** count interrupted; this round is incomplete **'
MARK_REPORT = '** Count terminated prematurely by user interrupt **'

def _acts(E):
    out = []
    for a in E.erecord['actions']:
        cs = None
        if 'cstate' in a:
            cs = tuple(sorted((cid, c['state'], c.get('pending'), str(c.get('vote'))) for cid, c in a['cstate'].items()))
        out.append((a['tag'], a['msg'], a['round'], cs))
    return out

def full_run(blt, opts):
    import_droop()
    from droop.profile import ElectionProfile
    from droop.election import Election
    Election.prog = staticmethod(lambda m: None)
    E = Election(ElectionProfile(data=blt), dict(opts))
    cnt = [0]
    root = os.path.join(REPO, 'droop')
    def tr(frame, event, arg):
        if not frame.f_code.co_filename.startswith(root): return None
        def local(frame, event, arg):
            if event == 'line': cnt[0] += 1
            return local
        return local
    sys.settrace(tr)
    try:
        E.count()
    finally:
        sys.settrace(None)
    return _acts(E), cnt[0]

def interrupted_run(blt, opts, k, full):
    """returns list of failure dicts for interruption point k (empty = fine), and where it struck"""
    import_droop()
    from droop.profile import ElectionProfile
    from droop.election import Election
    Election.prog = staticmethod(lambda m: None)
    E = Election(ElectionProfile(data=blt), dict(opts))
    cnt = [0]; where = [None]
    root = os.path.join(REPO, 'droop')
    def tr(frame, event, arg):
        if not frame.f_code.co_filename.startswith(root): return None
        def local(frame, event, arg):
            if event == 'line':
                cnt[0] += 1
                if cnt[0] == k:
                    where[0] = '%s:%s:%d' % (os.path.basename(frame.f_code.co_filename), frame.f_code.co_name, frame.f_lineno)
                    raise KeyboardInterrupt
            return local
        return local
    sys.settrace(tr)
    done = False
    try:
        try:
            E.count(); done = True
        except KeyboardInterrupt:
            pass
    finally:
        sys.settrace(None)
    if done:
        return [], None
    bad = []
    outs = {}
    # the renderings in an order that depends on the interruption point (each may be asked for first, and twice)
    orders = [('report', 'dump', 'json'), ('dump', 'json', 'report'), ('json', 'dump', 'report'), ('dump', 'dump', 'json', 'report'),
              ('json', 'report', 'dump'), ('report', 'json', 'dump', 'json'), ('dump', 'report', 'json'), ('json', 'json', 'report', 'dump')]
    for f in orders[k % len(orders)]:
        try:
            outs[f] = getattr(E, f)(True)
        except BaseException as x:
            tb = traceback.extract_tb(sys.exc_info()[2])[-1]
            bad.append(dict(kind='c19-render-fails', rendering=f, exception=type(x).__name__, message=str(x)[:100], at=tb.name, where=where[0]))
    if 'report' in outs and MARK_REPORT not in outs['report']:
        bad.append(dict(kind='c19-unmarked', rendering='report', where=where[0]))
    for f in ('dump', 'json'):
        if f in outs and MARK_LOG not in outs[f]:
            bad.append(dict(kind='c19-unmarked', rendering=f, where=where[0]))
    if 'json' in outs:
        try:
            json.loads(outs['json'])
        except Exception as x:
            bad.append(dict(kind='c19-json-invalid', where=where[0], message=str(x)[:100]))
    acts = _acts(E)
    marks = [a for a in acts if a[1] == MARK_LOG]
    if len(marks) != 1:
        bad.append(dict(kind='c19-marker-count', n=len(marks), where=where[0]))
    a = [x for x in acts if x[1] != MARK_LOG]
    if a != full[:len(a)]:
        bad.append(dict(kind='c19-not-a-prefix', where=where[0], n_actions=len(a)))
    return bad, where[0]

def _work(args):
    blt, opts, ks, full = args
    out = []
    for k in ks:
        try:
            bad, where = interrupted_run(blt, opts, k, full)
        except Exception:
            bad, where = [dict(kind='harness-error', err=traceback.format_exc()[-500:])], None
        for b in bad:
            b['k'] = k
            out.append(b)
    return out

def sweep(blt, opts, stride=1, nproc=16, offset=0):
    full, nlines = full_run(blt, opts)
    ks = list(range(1 + offset, nlines + 1, stride))
    chunks = [ks[i::nproc] for i in range(nproc)]
    ctx = multiprocessing.get_context('fork')
    with ctx.Pool(nproc) as pool:
        res = pool.map(_work, [(blt, opts, c, full) for c in chunks if c])
    bad = [b for r in res for b in r]
    return dict(points=len(ks), line_events=nlines, actions=len(full), failures=bad)

# ------------------------------------------------------------------ the command-line driver (Droop.main)
def _main_run(path, argv, k):
    """Droop.main(Options.parse(argv)) with a KeyboardInterrupt at the k-th line event of package code inside Election.count()
    (k=None: uninterrupted); returns (output text or None, struck?, exception name or None)"""
    import_droop()
    import Droop
    from droop.options import Options
    from droop.election import Election
    Election.prog = staticmethod(lambda m: None)
    root = os.path.join(REPO, 'droop') + os.sep
    st = dict(n=0, armed=False, hit=False)
    def tr(frame, event, arg):
        code = frame.f_code
        if not code.co_filename.startswith(root):
            return tr if os.path.basename(code.co_filename) == 'Droop.py' else None
        if event == 'call' and code.co_name == 'count' and code.co_filename.endswith('election.py'): st['armed'] = True
        if event == 'line' and st['armed'] and k is not None:
            st['n'] += 1
            if st['n'] == k:
                st['hit'] = True
                sys.settrace(None)
                raise KeyboardInterrupt
        return tr
    options = Options.parse(list(argv) + [path])
    sys.settrace(tr)
    try:
        try:
            out = Droop.main(options)
        except BaseException as x:
            return None, st['hit'], type(x).__name__
    finally:
        sys.settrace(None)
    return out, st['hit'], None

def _main_work(args):
    blt, argv0, ks = args
    import tempfile, shutil, itertools
    d = tempfile.mkdtemp(prefix='c19main')
    bad = []; pts = 0
    try:
        path = os.path.join(d, 'e.blt')
        with open(path, 'w') as f: f.write(blt)
        full, _, err = _main_run(path, argv0 + ['report=false', 'json=true'], None)
        if err is not None: return [], 0
        full_acts = [json.dumps(a, sort_keys=True) for a in json.loads(full)['actions']]
        for k in ks:
            for rep, dmp, jsn in itertools.product((True, False), repeat=3):
                if not (rep or dmp or jsn): continue
                flags = ['report=%s' % str(rep).lower(), 'dump=%s' % str(dmp).lower(), 'json=%s' % str(jsn).lower()]
                out, hit, err = _main_run(path, argv0 + flags, k)
                if not hit: continue
                pts += 1
                w = dict(k=k, flags=' '.join(flags), entry='Droop.main')
                if err is not None:
                    bad.append(dict(w, kind='c19-render-fails', rendering='main', exception=err)); continue
                if rep and MARK_REPORT not in out: bad.append(dict(w, kind='c19-unmarked', rendering='report'))
                if (dmp or jsn) and MARK_LOG not in out: bad.append(dict(w, kind='c19-unmarked', rendering='dump/json'))
                if jsn and not rep and not dmp:
                    try:
                        acts = [json.dumps(a, sort_keys=True) for a in json.loads(out)['actions']]
                        body = [a for a in acts if MARK_LOG not in a]
                        if body != full_acts[:len(body)]: bad.append(dict(w, kind='c19-not-a-prefix', n_actions=len(body)))
                    except Exception as x:
                        bad.append(dict(w, kind='c19-json-invalid', message=str(x)[:100]))
    finally:
        shutil.rmtree(d, ignore_errors=True)
    return bad, pts

def main_sweep(blt, opts, npoints=6, nproc=8):
    """the same election through the command-line entry point: interrupts at npoints line events spread over the count x every
    combination of report/dump/json"""
    full, nlines = full_run(blt, opts)
    argv0 = ['%s=%s' % (k, str(v).lower() if isinstance(v, bool) else v) for k, v in sorted(opts.items())]
    ks = sorted(set(max(1, (nlines * (2 * i + 1)) // (2 * npoints)) for i in range(npoints)))
    chunks = [ks[i::nproc] for i in range(nproc)]
    ctx = multiprocessing.get_context('fork')
    with ctx.Pool(nproc) as pool:
        res = pool.map(_main_work, [(blt, argv0, c) for c in chunks if c])
    return dict(points=sum(p for _, p in res), failures=[b for r, _ in res for b in r])
