"""Interrupt driver (C19): raise KeyboardInterrupt at the k-th executed line of package code during
Election.count(), then ask for report/dump/json(intr=True)."""
import sys, os, json, traceback, multiprocessing
from common import import_droop, REPO

MARK_LOG = '** count interrupted; this round is incomplete **'
MARK_REPORT = '** Count terminated prematurely by user interrupt **'

def _acts(E):
    out = []
    for a in E.erecord['actions']:
        cs = None
        if 'cstate' in a:
            cs = tuple(sorted((cid, c['state'], c.get('pending'), str(c.get('vote'))) for cid, c in a['cstate'].items()))
        out.append((a['tag'], a['msg'], a['round'], cs))
    return out

def full_run(blt, opts):
    import_droop()
    from droop.profile import ElectionProfile
    from droop.election import Election
    Election.prog = staticmethod(lambda m: None)
    E = Election(ElectionProfile(data=blt), dict(opts))
    cnt = [0]
    root = os.path.join(REPO, 'droop')
    def tr(frame, event, arg):
        if not frame.f_code.co_filename.startswith(root): return None
        def local(frame, event, arg):
            if event == 'line': cnt[0] += 1
            return local
        return local
    sys.settrace(tr)
    try:
        E.count()
    finally:
        sys.settrace(None)
    return _acts(E), cnt[0]

def interrupted_run(blt, opts, k, full):
    """returns list of failure dicts for interruption point k (empty = fine), and where it struck"""
    import_droop()
    from droop.profile import ElectionProfile
    from droop.election import Election
    Election.prog = staticmethod(lambda m: None)
    E = Election(ElectionProfile(data=blt), dict(opts))
    cnt = [0]; where = [None]
    root = os.path.join(REPO, 'droop')
    def tr(frame, event, arg):
        if not frame.f_code.co_filename.startswith(root): return None
        def local(frame, event, arg):
            if event == 'line':
                cnt[0] += 1
                if cnt[0] == k:
                    where[0] = '%s:%s:%d' % (os.path.basename(frame.f_code.co_filename), frame.f_code.co_name, frame.f_lineno)
                    raise KeyboardInterrupt
            return local
        return local
    sys.settrace(tr)
    done = False
    try:
        try:
            E.count(); done = True
        except KeyboardInterrupt:
            pass
    finally:
        sys.settrace(None)
    if done:
        return [], None
    bad = []
    outs = {}
    # the renderings in an order that depends on the interruption point (each may be asked for first, and twice)
    orders = [('report', 'dump', 'json'), ('dump', 'json', 'report'), ('json', 'dump', 'report'), ('dump', 'dump', 'json', 'report'),
              ('json', 'report', 'dump'), ('report', 'json', 'dump', 'json'), ('dump', 'report', 'json'), ('json', 'json', 'report', 'dump')]
    for f in orders[k % len(orders)]:
        try:
            outs[f] = getattr(E, f)(True)
        except BaseException as x:
            tb = traceback.extract_tb(sys.exc_info()[2])[-1]
            bad.append(dict(kind='c19-render-fails', rendering=f, exception=type(x).__name__, message=str(x)[:100], at=tb.name, where=where[0]))
    if 'report' in outs and MARK_REPORT not in outs['report']:
        bad.append(dict(kind='c19-unmarked', rendering='report', where=where[0]))
    for f in ('dump', 'json'):
        if f in outs and MARK_LOG not in outs[f]:
            bad.append(dict(kind='c19-unmarked', rendering=f, where=where[0]))
    if 'json' in outs:
        try:
            json.loads(outs['json'])
        except Exception as x:
            bad.append(dict(kind='c19-json-invalid', where=where[0], message=str(x)[:100]))
    acts = _acts(E)
    marks = [a for a in acts if a[1] == MARK_LOG]
    if len(marks) != 1:
        bad.append(dict(kind='c19-marker-count', n=len(marks), where=where[0]))
    a = [x for x in acts if x[1] != MARK_LOG]
    if a != full[:len(a)]:
        bad.append(dict(kind='c19-not-a-prefix', where=where[0], n_actions=len(a)))
    return bad, where[0]

def _work(args):
    blt, opts, ks, full = args
    out = []
    for k in ks:
        try:
            bad, where = interrupted_run(blt, opts, k, full)
        except Exception:
            bad, where = [dict(kind='harness-error', err=traceback.format_exc()[-500:])], None
        for b in bad:
            b['k'] = k
            out.append(b)
    return out

def sweep(blt, opts, stride=1, nproc=16, offset=0):
    full, nlines = full_run(blt, opts)
    ks = list(range(1 + offset, nlines + 1, stride))
    chunks = [ks[i::nproc] for i in range(nproc)]
    ctx = multiprocessing.get_context('fork')
    with ctx.Pool(nproc) as pool:
        res = pool.map(_work, [(blt, opts, c, full) for c in chunks if c])
    bad = [b for r in res for b in r]
    return dict(points=len(ks), line_events=nlines, actions=len(full), failures=bad)
