"""C08: Meek/Warren iterations keep their invariants and stop only when converged."""
from props import countcheck as cc
import count_driver as cd
ORACLES = ['c08']
def tweak(rng, e, o):
    if o.get('arithmetic') == 'rational': o['arithmetic'] = 'fixed'; o.setdefault('precision', 6)
def run(chk, ctx):
    chk.cov['rule'] = ("random elections (incl. equal rankings, starved profiles) x meek/warren/meek-prf x fixed/guarded x precision x omega x batch; "
                       "scope: raw kf, residual, surplus, votes, quota of every action; oracle: votes+residual = ballots at the claimed snapshots, "
                       "kf ranges, non-negativity, converged exits")
    cc.run(chk, ctx, 'values', ORACLES, 800, 60000, rules=cd.MEEKS, families=['small', 'tie', 'nearquota', 'chain', 'starved', 'mid', 'hugemult'], tweak=tweak)
def replay(chk, payload): return cc.replay(chk, payload, ORACLES)
