"""C20, class-state level: Election construction (rule.options(), ArithmeticClass, initialize) after random
histories of earlier elections -- implementation vs the extracted model of the class state, and the
history-independence oracle on the implementation.  Called from props/c20.py (whole-count runs are in
props/c20_counts.py)."""
import collections
import options_driver as od
from common import rng_for

def run(chk, ctx):
    quick = ctx['tier'] == 'quick'
    model = ctx['model']
    chk.cov['rule'] = chk.cov.get('rule', '') + " || class-state level: " + (
        "random histories of 0-4 earlier elections (any rule, Fixed/Guarded/Rational, precisions, displays incl. Guarded display > precision "
        "so that __scaledg exists, guard = 0 so that epsilon exists, Rational with odd display values, elections that fail half-way "
        "through initialize(), the same election itself) followed by the election under test. Compared: (i) implementation vs extracted "
        "Coq model on the whole text incl. every class attribute of the three classes, stale ones too; (ii) on the implementation, everything "
        "an election reads under the resulting configuration (option record, rule parameters, name/info/exact/epsilon, attributes read, "
        "str() of probe values, report()) after the history == after no history == after a history that also ran comparisons/str()/report(). "
        "distinct = (class under test, outcome, history classes, stale __scaledg / epsilon present)")
    n = 2500 if quick else 120000
    cases = od.gen_setup_cases(chk.seed, n, label='c20', hist=(0, 4))
    cases += od.gen_setup_cases(chk.seed, 700 if quick else 30000, label='c20-guarded', hist=(1, 4), modes=['gtest'])
    # the same election twice in a row, and after one of each class
    rng = rng_for(chk.seed, 'c20-twice')
    for c in od.gen_setup_cases(chk.seed, 300 if quick else 5000, label='c20-twice', modes=['sane']):
        c['hist'] = [dict(c['cfg'])] + [od.gen_history_element(rng) for _ in range(rng.randint(0, 2))] + [dict(c['cfg'])]
        cases.append(c)
    impl = [od.impl_setup(c) for c in cases]
    mod = model.run_many([od.to_tokens(c) for c in cases]) if model else [None] * len(cases)
    dist = dict(hist_len=collections.Counter(), cls=collections.Counter(), outcome=collections.Counter(), hist_cls=collections.Counter(),
                stale=collections.Counter(), disagreements=collections.Counter())
    for c, i, m in zip(cases, impl, mod):
        chk.count()
        a, b = od.split_text(i)
        out = [l for l in a.split('\n') if l.startswith('outcome: ')][0][9:]
        cls = ([l.split()[1] for l in a.split('\n') if l.startswith('arith: ')] or ['-'])[0]
        hcls = tuple(sorted(set(l.split(': ')[1] for l in b.split('\n') if l.startswith('hist '))))
        state = [l for l in b.split('\n') if l.startswith('state: ')][0]
        read = ([l for l in a.split('\n') if l.startswith('read: ')] or [''])[0]
        stale_g = ('Guarded.__scaledg=I' in state) and ('Guarded.__scaledg' not in read) and cls == 'cls=Guarded'
        stale_e = ('Guarded.epsilon=V' in state) and ('Guarded.epsilon' not in read) and cls == 'cls=Guarded'
        dist['hist_len'][len(c['hist'])] += 1; dist['cls'][cls] += 1; dist['outcome'][out] += 1
        dist['hist_cls'][','.join(hcls)] += 1
        dist['stale']['scaledg' if stale_g else '-'] += 1; dist['stale']['epsilon' if stale_e else '-'] += 1
        chk.nontrivial((cls, out, hcls, stale_g, stale_e))
        if m is not None:
            chk.validated()
            if m != i:
                ctx['broken'].append("correspondence options/history: model and implementation differ on %r" % (c,))
                dist['disagreements']['history'] += 1
                if dist['disagreements']['history'] <= 2:     # leave room for failing inputs found by the oracle
                    chk.violation("history: model and implementation disagree", dict(case=c, implementation=i, model=m), found_input=False)
        # history independence on the implementation
        fresh, _ = od.split_text(od.impl_setup(c, with_history=False))
        dirty, _ = od.split_text(od.impl_setup(c, dirty_history=True))
        if a != fresh or dirty != fresh:
            chk.violation("what an election reads after a history of earlier elections differs from a fresh process",
                          dict(case=c, after_history=a if a != fresh else dirty, fresh=fresh, dirtied=(a == fresh)),
                          signature=dict(kind='c20-class-state', cls=cls))
    chk.sample(dict(case=cases[0], implementation=impl[0], model=mod[0]))
    chk.cov['class_state_distribution'] = {k: {str(kk): vv for kk, vv in v.items()} for k, v in dist.items()}

def replay(chk, payload):
    c = payload['case']
    c['probes'] = [tuple(x) for x in c['probes']]
    a, _ = od.split_text(od.impl_setup(c))
    fresh, _ = od.split_text(od.impl_setup(c, with_history=False))
    dirty, _ = od.split_text(od.impl_setup(c, dirty_history=True))
    print("after history:\n" + a + "\nfresh:\n" + fresh)
    if dirty != fresh: print("after a history with comparisons/str()/report():\n" + dirty)
    return 0 if (a == fresh and dirty == fresh) else 1
