"""C01: every count terminates with the seats filled and every candidate decided."""
from props import countcheck as cc
ORACLES = ['c01']
def run(chk, ctx):
    chk.cov['rule'] = ("corpus + random elections (families small/tie/near-quota/chain/starved/withdrawn/big-multiplier/mid; undeclared for mpls; "
                       "equal ranks for meek/warren) x all 11 rule names x accepted arithmetic/precision/guard/omega/batch options; "
                       "scope: outcome class and final status sets; oracle: termination under a CPU budget, winners = min(seats, electable), "
                       "everyone decided, withdrawn untouched; distinct = (rule, arithmetic, outcome, ties, transfers, defeats, batches, seats, candidates)")
    cc.run(chk, ctx, 'final', ORACLES, 1500, 150000, families=['small', 'tie', 'nearquota', 'chain', 'starved', 'starved', 'withdrawn', 'bigmult', 'mid'])
def replay(chk, payload): return cc.replay(chk, payload, ORACLES)
