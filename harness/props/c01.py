"""C01: every count terminates with the seats filled and every candidate decided."""
from props import countcheck as cc
ORACLES = ['c01']
def run(chk, ctx):
    chk.cov['rule'] = ("corpus + random elections (families small/tie/near-quota/chain/starved/withdrawn/big-multiplier/mid; undeclared for mpls; "
                       "equal ranks for meek/warren) x all 11 rule names x accepted arithmetic/precision/guard/omega/batch options; "
                       "scope: outcome class and final status sets; plus a group of iterative rules (meek-prf, meek, warren, qpq) on elections with ballot multipliers up to 10^6, where keep-factor rounding is amplified and convergence is at stake; oracle: termination (a finite-precision count still running after 4x the budget while the model of the same election ends is a violation with that election as the input; rational counts over budget are 'not explored'), winners = min(seats, electable), "
                       "everyone decided, withdrawn untouched; distinct = (rule, arithmetic, outcome, ties, transfers, defeats, batches, seats, candidates)")
    cc.run(chk, ctx, 'final', ORACLES, 1500, 150000, families=['small', 'tie', 'nearquota', 'chain', 'starved', 'starved', 'withdrawn', 'bigmult', 'hugemult', 'mid', 'coalition'],
           extra=[('directed-convergence', 800, 40000, ['meek-prf', 'meek-prf', 'meek', 'warren', 'qpq'], ['bigmult']),
                  ('directed-writein', 200, 20000, ['mpls'], ['writein_strong'])])
def replay(chk, payload): return cc.replay(chk, payload, ORACLES)
