"""C04: the quota is the prescribed one, and whoever reaches it is elected."""
from props import countcheck as cc
ORACLES = ['c04']
def tweak(rng, e, o):
    """for the parametric rules, one case in four carries its arithmetic options in the ballot file ([droop ...] groups, the
    caller passes only the rule) -- zero values included, which the file layer must honour like any other"""
    if o['rule'] not in ('wigm', 'meek', 'warren') or rng.random() >= 0.25: return
    if o.get('arithmetic') == 'rational' or e.get('family') == 'exactquota': return
    keys = [k for k in ('arithmetic', 'precision', 'guard', 'display', 'omega', 'integer_quota', 'defeat_batch') if k in o]
    grp = ['%s=%s' % (k, 'true' if o[k] is True else o[k]) for k in keys]
    for k in keys: del o[k]
    if rng.random() < 0.4 and not any(g.startswith('arithmetic=') for g in grp):
        # (precision=0 is integer arithmetic, which meek and warren refuse by assertion: wigm only)
        grp = rng.choice([['arithmetic=guarded', 'precision=%d' % rng.choice([3, 6]), 'guard=0'], ['precision=%d' % rng.choice([4, 8]), 'guard=0']] +
                         ([['arithmetic=fixed', 'precision=0']] if o['rule'] == 'wigm' else []))
    if grp:
        k = rng.randint(0, len(grp))
        e['droop'] = [g for g in (grp[:k], grp[k:]) if g]

def run(chk, ctx):
    chk.cov['rule'] = ("random elections weighted to near-quota totals (ballots = 0,+-1 mod seats+1) and to surplus transfers that land a candidate EXACTLY on the quota (searched per rule precision and quota formula) x all rules x arithmetics; scope: quota, "
                       "votes and statuses of every action; oracle: quota formula recomputed in Fraction, nobody holding a quota is excluded")
    cc.run(chk, ctx, 'quota', ORACLES, 1000, 100000, families=['nearquota', 'nearquota', 'exactquota', 'exactquota', 'small', 'tie', 'chain', 'coalition', 'hugemult'], tweak=tweak)
def replay(chk, payload): return cc.replay(chk, payload, ORACLES)
