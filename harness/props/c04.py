"""C04: the quota is the prescribed one, and whoever reaches it is elected."""
from props import countcheck as cc
ORACLES = ['c04']
def run(chk, ctx):
    chk.cov['rule'] = ("random elections weighted to near-quota totals (ballots = 0,+-1 mod seats+1) and to surplus transfers that land a candidate EXACTLY on the quota (searched per rule precision and quota formula) x all rules x arithmetics; scope: quota, "
                       "votes and statuses of every action; oracle: quota formula recomputed in Fraction, nobody holding a quota is excluded")
    cc.run(chk, ctx, 'quota', ORACLES, 1000, 100000, families=['nearquota', 'nearquota', 'exactquota', 'exactquota', 'small', 'tie', 'chain', 'coalition', 'hugemult'])
def replay(chk, payload): return cc.replay(chk, payload, ORACLES)
