"""C05: Droop proportionality -- a solid coalition with k quotas wins k seats."""
from props import countcheck as cc
import count_driver as cd
ORACLES = ['c05']
def tweak(rng, e, o):
    e['eq'] = []
def sig_extra(blt, o, r, v): return {}
def run(chk, ctx):
    chk.cov['rule'] = ("random strict-ranking elections (<= 9 eligible candidates) x all rules x arithmetics; for EVERY candidate subset S and every k the "
                       "oracle checks: ballots ranking exactly S first > k quotas + allowance  =>  >= min(k,|S|) members of S elected; scope: final elected set")
    cc.run(chk, ctx, 'final', ORACLES, 600, 60000, families=['small', 'small', 'tie', 'nearquota', 'chain', 'withdrawn'], tweak=tweak)
def replay(chk, payload): return cc.replay(chk, payload, ORACLES)
