"""C05: Droop proportionality -- a solid coalition with k quotas wins k seats."""
from props import countcheck as cc
import count_driver as cd
ORACLES = ['c05']
def tweak(rng, e, o):
    e['eq'] = []
    # the directed families under the Meek rules: half of them with the arithmetic's default omega (no omega option), at
    # precisions where omega is far below one vote
    if e.get('family') == 'directed' and o['rule'] in ('meek', 'warren') and rng.random() < 0.5:
        keep = dict(rule=o['rule'], arithmetic=rng.choice(['fixed', 'fixed', 'guarded']))
        if rng.random() < 0.5: keep['precision'] = rng.choice([6, 9, 12])
        o.clear(); o.update(keep)
def sig_extra(blt, o, r, v): return {}
def run(chk, ctx):
    chk.cov['rule'] = ("random strict-ranking elections (weighted to solid coalitions barely above k quotas with a strong member holding a pending surplus, and to the batch-defeat rules) (<= 9 eligible candidates) x all rules x arithmetics; for EVERY candidate subset S and every k the "
                       "oracle checks: ballots ranking exactly S first > k quotas + allowance  =>  >= min(k,|S|) members of S elected; scope: final elected set")
    cc.run(chk, ctx, 'final', ORACLES, 600, 60000, families=['small', 'coalition', 'coalition', 'coalition', 'tie', 'nearquota', 'chain', 'withdrawn', 'hugemult'],
           rules=cd.RULES + cd.RULES + ['wigm', 'meek', 'warren', 'wigm-prf-batch', 'cfer-batch', 'wigm-prf-batch', 'cfer-batch'], tweak=tweak,
           extra=[('directed-batch', 3000, 100000, ['wigm-prf-batch', 'cfer-batch', 'wigm-prf-batch', 'cfer-batch', 'mpls', 'meek', 'wigm', 'meek-prf', 'scotland'], ['coalition']),
                  ('directed-cotie', 400, 20000, ['wigm', 'wigm', 'wigm', 'scotland', 'wigm-prf', 'cfer', 'mpls', 'meek'], ['cotie']),
                  ('directed-cochain', 1500, 40000, ['meek', 'warren', 'meek', 'meek-prf', 'wigm', 'scotland', 'cfer', 'qpq'], ['cochain'])])
def replay(chk, payload): return cc.replay(chk, payload, ORACLES)
