"""C20, whole counts: the record after an arbitrary history of earlier elections equals the fresh-process record."""
import os, sys, json, subprocess, hashlib
import count_driver as cd
from common import rng_for, VERIF, REPO

RUNNER = r'''
import sys, json
sys.path.insert(0, %r); sys.path.insert(0, %r)
import count_driver as cd
from common import import_droop
import_droop()
from droop.profile import ElectionProfile
from droop.election import Election
Election.prog = staticmethod(lambda m: None)
jobs = json.load(sys.stdin)
out = []
for job in jobs:
    hist, (blt, opts) = job[0], job[1]
    reuse = job[2] if len(job) > 2 else []
    for hb, ho in hist:
        try:
            E = Election(ElectionProfile(data=hb), dict(ho)); E.count(); E.report(); E.dump(); E.json()
        except Exception as ex:
            pass
    try:
        prof = ElectionProfile(data=blt)
        for ro in reuse:            # the same profile OBJECT counted before, in other election objects
            try:
                E0 = Election(prof, dict(ro)); E0.count(); E0.report(); E0.dump(); E0.json()
            except Exception as ex:
                pass
        E = Election(prof, dict(opts)); E.count()
        out.append([E.report(), E.dump(), E.json()])
    except Exception as ex:
        out.append(['EXC ' + type(ex).__name__, '', ''])
json.dump(out, sys.stdout)
'''

def run_jobs(jobs):
    code = RUNNER % (os.path.join(VERIF, 'harness'), REPO)
    env = dict(os.environ); env['PYTHONHASHSEED'] = '0'
    r = subprocess.run(['/venv/bin/python', '-c', code], input=json.dumps(jobs).encode(), stdout=subprocess.PIPE,
                       stderr=subprocess.PIPE, env=env, timeout=1800)
    if r.returncode != 0:
        raise RuntimeError(r.stderr.decode()[-800:])
    return json.loads(r.stdout.decode())

def small_case(rng, rule=None):
    e = cd.gen_election(rng, maxc=5, maxb=6)
    o = cd.gen_options(rng, rule=rule)
    if o.get('arithmetic') == 'rational' and o['rule'] in ('meek', 'warren'): o['arithmetic'] = 'guarded'
    if o['rule'] in ('meek', 'warren') and rng.random() < 0.5: cd.add_equal_ranks(rng, e)      # ballots whose rank groups the profile owns
    blt = cd.render_blt(e)
    if rng.random() < 0.3:
        # options embedded in the ballot file (the list is owned by the profile object); the caller passes only the rule
        emb = rng.choice(['arithmetic=fixed precision=3', 'precision=5', 'arithmetic=guarded precision=4 guard=2', 'display=3', 'omega=3', 'defeat_batch=none'])
        lines = blt.split("\n"); lines.insert(1, '[droop %s]' % emb); blt = "\n".join(lines)
        o = dict(rule=o['rule'])
    return blt, o

def run(chk, ctx):
    quick = ctx['tier'] == 'quick'
    rng = rng_for(chk.seed, 'c20-counts')
    n = 120 if quick else 6000
    jobs = []
    for i in range(n):
        test = small_case(rng)
        hist = [small_case(rng) for _ in range(rng.randint(1, 4))]
        # histories that leave stale class state behind: guarded with display > precision, guard = 0, other precisions
        if rng.random() < 0.6:
            hist.append((test[0], dict(rule='wigm', arithmetic='guarded', precision=rng.choice([2, 5]), guard=rng.choice([0, 3]),
                                       display=rng.choice([1, 7]))))
        if rng.random() < 0.3:
            hist.append(test)       # the same profile counted before, in another election object
        reuse = []
        if rng.random() < 0.5:      # ... and the same profile object counted before under other rules / the same rule
            reuse = [rng.choice([dict(test[1]), cd.gen_options(rng), dict(rule=rng.choice(cd.STATUTORY))]) for _ in range(rng.randint(1, 2))]
            for ro in reuse:
                if ro.get('arithmetic') == 'rational' and ro['rule'] in ('meek', 'warren'): ro['arithmetic'] = 'guarded'
        jobs.append((hist, test, reuse))
    # each job in its own fresh process for the baseline, all histories in one long-lived process
    fresh = []
    B = 40
    for k in range(0, len(jobs), B):
        fresh += [run_jobs([([], j[1])])[0] for j in jobs[k:k + B]] if not quick or True else []
    after = run_jobs(jobs)     # one process: every job also inherits the state left by all earlier jobs
    for (hist, test, reuse), f, a in zip(jobs, fresh, after):
        chk.count(); chk.nontrivial(('hist', test[1]['rule'], test[1].get('arithmetic'), len(hist), f[0][:3]))
        if f != a:
            which = [nm for nm, x, y in zip(('report', 'dump', 'json'), f, a) if x != y]
            chk.violation("the record of a count depends on the elections counted before it in the process",
                          dict(blt=test[0], options=test[1], history=hist, same_profile_object_counted_before_with=reuse, differs=which,
                               first_difference=cd.first_diff(f[0], a[0])),
                          signature=dict(kind='c20-history', rule=test[1]['rule']))
    chk.cov['histories'] = len(jobs)
