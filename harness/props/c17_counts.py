"""C17, whole counts: statutory rules produce an identical count whatever options are supplied."""
import re, collections
import count_driver as cd
from common import rng_for

NOISE = [('arithmetic', ['rational', 'guarded', 'fixed', 'integer']), ('precision', [0, 3, 7, 12]), ('guard', [0, 2, 5]),
         ('display', [0, 2, 9]), ('omega', [1, 3, 9]), ('integer_quota', ['true', 'false']), ('defeat_batch', ['none', 'zero', 'safe'])]

def run(chk, ctx):
    quick = ctx['tier'] == 'quick'
    rng = rng_for(chk.seed, 'c17-counts')
    n = 250 if quick else 20000
    cases = []
    for i in range(n):
        rule = rng.choice(cd.STATUTORY)
        e = cd.gen_election(rng)
        if rule == 'mpls' and rng.random() < 0.3: cd.add_undeclared(rng, e)
        blt = cd.render_blt(e)
        cmd = dict(rule=rule); fileopts = []
        for k, vals in NOISE:
            if rng.random() < 0.4: cmd[k] = rng.choice(vals)
            if rng.random() < 0.3: fileopts.append('%s=%s' % (k, rng.choice(vals)))
        blt2 = blt
        if fileopts:
            head, rest = blt.split('\n', 1)
            blt2 = head + '\n[droop %s]\n' % ' '.join(fileopts) + rest
        cases.append((blt, dict(rule=rule), blt2, cmd))
    res = cd.run_cases([(b, o) for b, o, b2, o2 in cases] + [(b2, o2) for b, o, b2, o2 in cases], timeout=15, use_model=False, oracle_names=('c17_report_header',))
    for k, (b, o, b2, o2) in enumerate(cases):
        x, y = res[k], res[k + len(cases)]
        if 'timeout' in (x['status'], y['status']): continue
        chk.count(); chk.nontrivial(('immunity', o['rule'], x['status'].split(':')[0], len(o2)))
        if x['status'] != y['status'] or x['trace'] != y['trace']:
            chk.violation("a statutory rule's count changes with the options supplied",
                          dict(blt=b2, options=o2, plain_status=x['status'], status=y['status'], message=y.get('msg'),
                               first_difference=cd.first_diff(x['trace'], y['trace'])),
                          signature=dict(kind='c17-immunity', rule=o['rule']))
    nhead = collections.Counter()
    for k, x in enumerate(res):
        if x['status'] != 'ok': continue
        b, o = (cases[k][0], cases[k][1]) if k < len(cases) else (cases[k - len(cases)][2], cases[k - len(cases)][3])
        chk.count()
        nhead['header checked'] += 1
        for name, v in x.get('oracle', []):
            if v.startswith('ORACLE-ERROR'):
                raise RuntimeError(v)
            chk.violation("the report header does not name the unused / overridden options", dict(blt=b, options=o, failure=v),
                          signature=dict(kind='c17-report-header', rule=o['rule']))
    # the file layer is the options of EVERY [droop ...] group of the ballot file, in file order: the same options written as
    # one group and spread over several groups give the same count (parametric rules, where the options matter)
    SETS = [['arithmetic=fixed', 'precision=3'], ['arithmetic=fixed', 'precision=5', 'display=2'], ['arithmetic=guarded', 'precision=4', 'guard=2'],
            ['arithmetic=rational', 'display=4'], ['arithmetic=integer'], ['precision=6', 'guard=3'], ['arithmetic=guarded', 'precision=2', 'guard=0', 'display=2'],
            ['arithmetic=fixed', 'precision=2', 'precision=4']]
    groups = []
    for i in range(60 if quick else 6000):
        rule = rng.choice(['wigm', 'meek', 'warren'])
        blt = cd.render_blt(cd.gen_election(rng))
        fo = list(rng.choice(SETS))
        if rule == 'wigm':
            if rng.random() < 0.4: fo.append('defeat_batch=zero')
            if rng.random() < 0.3: fo.append('integer_quota=true')
        else:
            if rng.random() < 0.4: fo.append('omega=%d' % rng.choice([1, 2, 4]))
            if rng.random() < 0.3: fo.append('defeat_batch=none')
        if len(fo) < 2: fo.append('display=0')
        head, rest = blt.split('\n', 1)
        one = head + '\n[droop %s]\n' % ' '.join(fo) + rest
        cuts = sorted(set(rng.randint(1, len(fo) - 1) for _ in range(rng.randint(1, 2))))
        parts = [fo[a:b] for a, b in zip([0] + cuts, cuts + [len(fo)])]
        many = head + '\n' + ''.join('[droop %s]\n' % ' '.join(g) for g in parts) + rest
        groups.append((rule, one, many))
    gres = cd.run_cases([(one, dict(rule=r)) for r, one, many in groups] + [(many, dict(rule=r)) for r, one, many in groups], timeout=15, use_model=False)
    for k, (r, one, many) in enumerate(groups):
        x, y = gres[k], gres[k + len(groups)]
        if 'timeout' in (x['status'], y['status']): continue
        chk.count(); chk.nontrivial(('droop-groups', r, x['status'].split(':')[0], x.get('arith')))
        if x['status'] != y['status'] or x['trace'] != y['trace'] or x.get('arith') != y.get('arith'):
            chk.violation("options spread over several [droop ...] groups of the ballot file are not the file layer one group gives",
                          dict(blt=many, blt_one_group=one, options=dict(rule=r), one_group_status=x['status'], status=y['status'],
                               arithmetic=(x.get('arith'), y.get('arith')), first_difference=cd.first_diff(x['trace'], y['trace'])),
                          signature=dict(kind='c17-droop-groups', rule=r))
    chk.cov['droop_group_pairs'] = len(groups)
    chk.cov['immunity_pairs'] = len(cases)
    chk.cov['report_headers'] = dict(nhead)
