"""C17: option precedence (force > cmd > file > default; record, unused, overrides) and immunity of the
statutory rules to arithmetic/precision/guard/display/omega/quota/batch options -- configuration level.
Whole-count immunity runs are added by props/c17_counts.py when present."""
import collections, re
import options_driver as od
from common import rng_for

CORPUS = [
    # allowed=(True, False) accepts 1 and 0 (True == 1); 2 and 'true' are refused
    dict(cmd=dict(rule='wigm', integer_quota=1), file={}, strs=None, rule='wigm'),
    dict(cmd=dict(rule='wigm', integer_quota=0), file={}, strs=None, rule='wigm'),
    dict(cmd=dict(rule='wigm', integer_quota=2), file={}, strs=None, rule='wigm'),
    dict(cmd=dict(rule='wigm', integer_quota='true'), file={}, strs=None, rule='wigm'),
    dict(cmd=dict(rule='wigm'), file=None, strs=['integer_quota=YES', 'defeat_batch=zero', 'precision=07'], rule='wigm'),
    # a key present with value None in a higher layer masks the lower layers
    dict(cmd=dict(rule='wigm', precision=None), file=dict(precision=6), strs=None, rule='wigm'),
    dict(cmd=dict(rule='wigm', arithmetic='fixed', display=None), file=dict(display=3), strs=None, rule='wigm'),
    dict(cmd=dict(rule='meek', arithmetic='fixed', precision='abc'), file={}, strs=None, rule='meek'),
    dict(cmd=dict(rule='meek', arithmetic='integer'), file={}, strs=None, rule='meek'),
    dict(cmd=dict(rule='wigm', arithmetic='integer', precision=5), file=dict(precision=7), strs=None, rule='wigm'),
    dict(cmd=dict(rule='wigm', arithmetic='rational', display=True), file={}, strs=None, rule='wigm'),
    dict(cmd=dict(rule='wigm', arithmetic='rational', display=-2), file={}, strs=None, rule='wigm'),
    # display=False under Rational: '%d.%0Falsed' is a *valid* format (%0F), values print as '5.0.000000alsed'
    dict(cmd=dict(rule='wigm', arithmetic='rational', display=False), file={}, strs=None, rule='wigm'),
    dict(cmd=dict(rule='wigm', arithmetic='fixed', precision=False), file={}, strs=None, rule='wigm'),
    dict(cmd=dict(rule='wigm', arithmetic='fixed', precision=4, display=' 3'), file={}, strs=None, rule='wigm'),
    dict(cmd=dict(rule='wigm', arithmetic='guarded', precision=4, guard=0, display=9), file={}, strs=None, rule='wigm'),
    dict(cmd=dict(rule='warren'), file=dict(rule='meek', omega=4, defeat_batch='none'), strs=None, rule='warren'),
    dict(cmd={}, file=dict(rule='wigm-prf-batch', precision=9), strs=None, rule='wigm-prf-batch'),
    dict(cmd=dict(arithmetic='quadruple', rule='wigm'), file={}, strs=None, rule='wigm'),
    dict(cmd={}, file={}, strs=None, rule=None),
    dict(cmd=dict(rule='stv'), file={}, strs=None, rule='stv'),
] + [dict(cmd=dict(rule=r, arithmetic='rational', precision=2, guard=1, display=0, omega=2, integer_quota=True, defeat_batch='zero'),
          file=dict(arithmetic='guarded', precision='x', display=None), strs=None, rule=r) for r in od.STATUTORY]

def compare_with_model(chk, ctx, cases, label, dist):
    model = ctx['model']
    impl = [od.impl_eval(c) for c in cases]
    mod = model.run_many([od.to_tokens(c) for c in cases]) if model else [None] * len(cases)
    for c, i, m in zip(cases, impl, mod):
        chk.count()
        if c['kind'] == 'setup':
            out = [l for l in i.split('\n') if l.startswith('outcome: ')][0][9:]
            cls = ([l.split()[1] for l in i.split('\n') if l.startswith('arith: ')] or ['-'])[0]
            dist['rule'][str(c['cfg'].get('rule'))] += 1
            dist['outcome'][out] += 1
            dist['class'][cls] += 1
            chk.nontrivial((label, c['cfg'].get('rule'), out, cls, 'strs' if c['cfg'].get('strs') is not None else 'dict',
                            len([l for l in i.split('\n') if l.startswith('unused: ')][0]) > 8,
                            len([l for l in i.split('\n') if l.startswith('overrides: ')][0]) > 11))
        else:
            chk.nontrivial((label, c['kind'], i[:12]))
        if m is not None:
            chk.validated()
            if m != i:
                ctx['broken'].append("correspondence options/%s: model and implementation differ on %r" % (label, c))
                dist['disagreements'][label] += 1
                if sum(dist['disagreements'].values()) <= 2:     # leave room for failing inputs found by the oracles
                    chk.violation("%s: model and implementation disagree" % label, dict(case=c, implementation=i, model=m),
                                  found_input=False)
    if cases:
        chk.sample(dict(case=cases[0], implementation=impl[0], model=mod[0]))
    return impl

def run(chk, ctx):
    quick = ctx['tier'] == 'quick'
    chk.cov['rule'] = (
        "random assignments of None/bool/int/digit-string/other-string values to the cmd and file layers for every option name the "
        "rules know (arithmetic, precision, guard, display, omega, integer_quota, defeat_batch, rule, path) plus unknown names, for all "
        "11 rule names, file layer either as a dict or as ballot-file option strings through Options.parse; the implementation's "
        "Options/rule.options()/ArithmeticClass/initialize vs the extracted Coq model (four layers, allowed, getopt of every key, "
        "unused, overrides, record options, rule parameters, class attributes read); precedence/record/unused/overrides oracle and "
        "statutory-immunity oracle evaluated on the implementation. Envelope: ASCII strings <= 12 chars (no non-ASCII digits), |int| <= 40. "
        "distinct = (rule, outcome, arithmetic class, file form, unused non-empty, overrides non-empty)")
    dist = dict(rule=collections.Counter(), outcome=collections.Counter(), disagreements=collections.Counter(), **{'class': collections.Counter()})
    corpus = [dict(kind='setup', probes=od.PROBES[:3], hist=[], cfg=c) for c in CORPUS]
    compare_with_model(chk, ctx, corpus, 'corpus', dist)
    n = 2500 if quick else 150000
    cases = od.gen_setup_cases(chk.seed, n, label='c17')
    compare_with_model(chk, ctx, cases, 'setup', dist)
    compare_with_model(chk, ctx, od.gen_parse_cases(chk.seed, 600 if quick else 40000), 'parse', dist)
    compare_with_model(chk, ctx, od.gen_int_cases(chk.seed, 800 if quick else 60000), 'int', dist)
    # oracles on the implementation
    nprec = nimm = 0
    for c in corpus + cases:
        fails = od.oracle_precedence(c['cfg'])
        nprec += 1; chk.count()
        if fails:
            chk.violation("option precedence / record / unused / overrides do not hold on the implementation",
                          dict(case=c, failures=fails[:6]), signature=dict(kind='c17-precedence', rule=c['cfg'].get('rule')))
    stat = [c for c in corpus if c['cfg'].get('rule') in od.STATUTORY] + \
           od.gen_setup_cases(chk.seed, 1200 if quick else 80000, label='c17-immunity', rules=od.STATUTORY, modes=['wild', 'plain', 'sane'])
    for c in stat:
        cfg = c['cfg']
        # the option list itself must be well formed (two bare file names are refused by parse()) and the
        # effective rule name must be the statutory one (cmd wins over file)
        file_layer = cfg['file']
        if cfg.get('strs') is not None:
            try:
                file_layer = od.Options.parse(list(cfg['strs']))
            except Exception:
                continue
        eff_rule = cfg['cmd'].get('rule', (file_layer or {}).get('rule'))
        if eff_rule != cfg['rule']:
            continue
        ok, a, b = od.oracle_immunity(c)
        nimm += 1; chk.count()
        dist['rule']['immunity:' + cfg['rule']] += 1
        chk.nontrivial(('immune', cfg['rule'], tuple(sorted(k for k in od.IMMUNE_KEYS if k in cfg['cmd'] or k in (file_layer or {})))))
        if not ok:
            chk.violation("a statutory rule's effective configuration depends on the supplied options (or it raised)",
                          dict(case=c, with_options=a, without_options=b), signature=dict(kind='c17-immunity', rule=cfg['rule']))
    chk.cov['precedence_oracle_cases'] = nprec
    chk.cov['immunity_oracle_cases'] = nimm
    chk.cov['distribution'] = {k: dict(v) for k, v in dist.items()}
    try:
        import props.c17_counts as cc
        cc.run(chk, ctx)
    except ImportError:
        pass

def replay(chk, payload):
    if 'blt' in payload:      # whole-count cases of props/c17_counts.py
        import count_driver as cd, oracles
        opts = payload['options']
        y = cd.impl_count(payload['blt'], opts, want_E=True)
        print("status:", y['status'])
        bad = False
        if 'E' in y:
            v = oracles.c17_report_header(y['E'], payload['blt'], opts, y)
            print("report header oracle:", v or 'holds')
            bad = bad or bool(v)
        if 'blt_one_group' in payload:
            x = cd.impl_count(payload['blt_one_group'], opts)
            same = (x['status'], x['trace'], x.get('arith')) == (y['status'], y['trace'], y.get('arith'))
            print("count identical to the count with the options in one [droop ...] group:", same)
            return 1 if (bad or not same) else 0
        blt0 = re.sub(r'\n\[droop [^\]]*\]', '', payload['blt'])
        x = cd.impl_count(blt0, dict(rule=opts['rule']))
        same = (x['status'], x['trace']) == (y['status'], y['trace'])
        print("count identical to the count without options:", same)
        return 1 if (bad or not same) else 0
    c = payload['case']
    if c.get('kind', 'setup') != 'setup':
        print("implementation:", od.impl_eval(c)); return 0
    for k in ('probes',):
        c[k] = [tuple(x) for x in c[k]]
    print(od.impl_setup(c))
    fails = od.oracle_precedence(c['cfg'])
    print("precedence oracle failures:", fails)
    bad = bool(fails)
    if c['cfg'].get('rule') in od.STATUTORY:
        ok, a, b = od.oracle_immunity(c)
        print("immunity:", ok)
        if not ok:
            print("with options:\n" + a + "\nwithout options:\n" + b)
        bad = bad or not ok
    return 1 if bad else 0
