"""C09: candidate status only moves forward; seats are never over- or under-committed."""
from props import countcheck as cc
ORACLES = ['c09']
def run(chk, ctx):
    chk.cov['rule'] = ("random elections x all rules x arithmetics; scope: statuses/pending/round of every action; oracle: transition relation on "
                       "consecutive snapshots, elected <= seats, elected+continuing >= fillable seats, rounds monotone")
    cc.run(chk, ctx, 'states', ORACLES, 1500, 200000)
def replay(chk, payload): return cc.replay(chk, payload, ORACLES)
