"""C20: a count is independent of whatever was counted before it in the process."""
def run(chk, ctx):
    chk.cov['rule'] = ("random histories of 1-6 earlier elections (any rule/arithmetic/precision/guard/display, incl. ones leaving stale class "
                       "state: guarded display>precision, guard=0) then the election under test, all in one long-lived process; oracle: report, "
                       "dump and JSON byte-equal to the result of a fresh process; distinct = (rule, arithmetic, history length, outcome)")
    try:
        import props.c20_options as co
        co.run(chk, ctx)
    except ImportError:
        pass
    import props.c20_counts as cc
    cc.run(chk, ctx)
def replay(chk, payload):
    if 'case' in payload:       # a class-state level replay (props/c20_options.py)
        import props.c20_options as co
        return co.replay(chk, payload)
    import props.c20_counts as cc
    f = cc.run_jobs([([], (payload['blt'], payload['options']))])[0]
    a = cc.run_jobs([(payload['history'], (payload['blt'], payload['options']))])[0]
    print("differs:", [nm for nm, x, y in zip(('report', 'dump', 'json'), f, a) if x != y])
    return 0 if f == a else 1
