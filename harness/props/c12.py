"""C12: Fixed-point and rational arithmetic compute exactly what they claim."""
import values_driver as vd

def run_cases(chk, ctx, cases, label):
    model = ctx['model']
    impl = [vd.impl_eval(c) for c in cases]
    mod = model.run_many([vd.to_tokens(c) for c in cases]) if model else [None] * len(cases)
    for c, i, m in zip(cases, impl, mod):
        chk.count()
        chk.nontrivial((c['cls'], c['op'], c['rnd'], i[:3], c['p'] if c['p'] < 6 else 6))
        want = vd.oracle_c12(c, i)
        if want is None:
            want = vd.oracle_c12_rational(c, i)
        if want is not None and want != i:
            chk.violation("%s: implementation result differs from the exact rational result rounded as C12 prescribes" % label,
                          dict(case=c, implementation=i, expected=want, op=vd.OPS[c['op']]),
                          signature=dict(kind='c12-oracle', op=vd.OPS[c['op']]))
        if m is not None and m != 'badop':
            chk.validated()
            if m != i:
                ctx['broken'].append("correspondence values/%s: model %r vs implementation %r on %r" % (label, m, i, c))
                if want is None:
                    chk.violation("%s: model and implementation disagree" % label,
                                  dict(case=c, implementation=i, model=m, op=vd.OPS[c['op']]), found_input=False)
    if cases:
        chk.sample(dict(case=cases[0], implementation=impl[0], model=mod[0]))

def reversed_operands(chk, n):
    """rational arithmetic with a plain int on the LEFT (1 - x, 2 * x, 1 / x, 7 // x, 7 % x): Python hands these to the reversed
    operator of the Rational on the right; the result must be exact and again a Rational (no model: Fraction oracle only)"""
    from fractions import Fraction
    import operator
    rng = vd.rng_for(chk.seed, 'c12-reversed')
    V = vd.setup_class(2, 0, 0, rng.choice([0, 3, 12]))
    ops = [('add', operator.add), ('sub', operator.sub), ('mul', operator.mul), ('truediv', operator.truediv),
           ('floordiv', operator.floordiv), ('mod', operator.mod)]
    for _ in range(n):
        i = rng.choice([0, 1, -1, 2, 7, -7, rng.randint(-50, 50), rng.choice([-1, 1]) * rng.randint(0, 10 ** rng.randint(1, 30))])
        num = rng.choice([1, -1, 2, 3, -5, rng.randint(-40, 40), rng.randint(-10 ** 20, 10 ** 20)]); den = rng.choice([1, 2, 3, 7, rng.randint(1, 60), rng.randint(1, 10 ** 12)])
        name, f = rng.choice(ops)
        if num == 0 and name in ('truediv', 'floordiv', 'mod'): num = 1
        chk.count(); chk.nontrivial(('rational', 'r' + name, i == 0, den == 1))
        x = V(num, den)
        try:
            r = f(i, x)
            got = vd.show(V, r)
        except Exception as ex:
            got = "exn " + type(ex).__name__
        w = f(Fraction(i), Fraction(num, den))
        want = "ok %d/%d" % (Fraction(w).numerator, Fraction(w).denominator)
        if got != want:
            chk.violation("reversed operand: int %s Rational is not the exact result as a value of the class" % name,
                          dict(reversed=dict(i=i, num=num, den=den, op=name), implementation=got, expected=want),
                          signature=dict(kind='c12-oracle', op='r' + name))
    chk.cov['reversed_operands'] = "%d operations int (+,-,*,/,//,%%) Rational" % n

def run(chk, ctx):
    n = 6000 if ctx['tier'] == 'quick' else 400000
    chk.cov['rule'] = ("random + boundary operands (all signs, zero, up to 10^40) x precision 0..30 x every Fixed/Rational "
                       "operator and rounding mode; implementation vs extracted Coq kernels vs Fraction oracle; "
                       "non-trivial/distinct = (class, op, rounding, outcome kind, precision bucket)")
    cases = vd.gen_cases(chk.seed, n, classes=(0, 0, 0, 2))
    run_cases(chk, ctx, cases, 'random')
    # rational arithmetic: exact and closed under every operator, the unary ones included (the model has no entry for
    # neg/pos/abs of a Rational: those three are decided by the Fraction oracle and the wrapped-method theorem)
    run_cases(chk, ctx, vd.gen_cases(chk.seed, n // 6, classes=(2,), ops=[1, 2, 3, 4, 5, 7, 9, 10, 11, 12]), 'rational')
    # "integer arithmetic is the zero-place case": the class set up with arithmetic=integer -- with or without a
    # precision option from the caller, which integer arithmetic overrides -- against the p=0 kernels and oracle
    ints = vd.gen_cases(chk.seed + 1, n // 6, classes=(0,))
    rng = vd.rng_for(chk.seed, 'c12-integer')
    for c in ints:
        c['p'] = 0
        c['d'] = rng.choice([0, 0, -1, 2])
        c['integer'] = rng.choice([('none',), ('precision', 0), ('precision', 3), ('precision', rng.randint(1, 12)), ('precision', '6')])
    run_cases(chk, ctx, ints, 'integer')
    chk.cov['integer_arithmetic'] = "%d operations on the class initialised with arithmetic=integer (caller precision none/0/N)" % len(ints)
    reversed_operands(chk, 600 if ctx['tier'] == 'quick' else 20000)
    if ctx['tier'] == 'thorough':
        grid = list(vd.grid_cases(maxraw=40, ps=(0, 1, 2, 3)))
        run_cases(chk, ctx, grid, 'grid')
        chk.cov['exhaustive_grid'] = "|raw|<=40, p<=3, ops mul_op/truediv/kmul/kdiv/kmuldiv, both roundings: %d cases" % len(grid)

def replay(chk, payload):
    if 'reversed' in payload:
        from fractions import Fraction
        import operator
        q = payload['reversed']; V = vd.setup_class(2, 0, 0, 12); f = getattr(operator, q['op'])
        try: got = vd.show(V, f(q['i'], V(q['num'], q['den'])))
        except Exception as ex: got = "exn " + type(ex).__name__
        w = Fraction(f(Fraction(q['i']), Fraction(q['num'], q['den'])))
        want = "ok %d/%d" % (w.numerator, w.denominator)
        print("implementation:", got, " expected:", want)
        return 0 if got == want else 1
    c = payload['case']
    c['A'], c['B'], c['C'] = tuple(c['A']), tuple(c['B']), tuple(c['C'])
    if c.get('integer'): c['integer'] = tuple(c['integer'])
    i = vd.impl_eval(c)
    want = vd.oracle_c12(c, i)
    if want is None: want = vd.oracle_c12_rational(c, i)
    print("implementation:", i, " expected:", want)
    return 0 if want in (None, i) else 1
