"""C02: votes are conserved at every step."""
from props import countcheck as cc
ORACLES = ['c02']
def run(chk, ctx):
    chk.cov['rule'] = ("random elections incl. big multipliers and long chains x all rules; scope: raw votes / non-transferable / residual / "
                       "quota of every action; oracle: per action sum <= ballots, shortfall <= 2 ulp x ballots x surplus transfers (Gregory), "
                       "exact under rational, no negative tally/nt/residual, QPQ contribution sum; distinct as in C01")
    cc.run(chk, ctx, 'values', ORACLES, 1000, 100000, families=['small', 'tie', 'nearquota', 'chain', 'bigmult', 'bigmult', 'hugemult', 'mid', 'withdrawn'])
def replay(chk, payload): return cc.replay(chk, payload, ORACLES)
