"""C06: Gregory transfers -- tallies equal ballot values; values only shrink, rounded down."""
from props import countcheck as cc
import count_driver as cd
ORACLES = ['c06']
def tweak(rng, e, o):
    """wigm under arithmetic so coarse that different tallies compare equal (guarded, precision 0 or 1): the surplus step then
    chooses among pending winners that are equal only within the tolerance, and must transfer the chosen one's own surplus"""
    if o['rule'] == 'wigm' and e.get('family') in ('mid', 'chain', 'coalition') and rng.random() < 0.5:
        keep = dict(rule='wigm', arithmetic='guarded', precision=rng.choice([0, 0, 1]), guard=rng.choice([2, 3]))
        o.clear(); o.update(keep)
        if e['s'] < 3 and e['n'] >= 4: e['s'] = 3

def run(chk, ctx):
    chk.cov['rule'] = ("random elections (long chains with nested surpluses) x Gregory-family rules x arithmetics; scope: every ballot's index and raw "
                       "weight at every action plus tallies/statuses; oracle: P1 no hopeful skipped, P3 tally = sum of ballot values, P4 weights change "
                       "only at a surplus transfer to the prescribed truncated value, elected keeps the quota, 0<=w'<=w<=1")
    cc.run(chk, ctx, 'ballots', ORACLES, 800, 80000, rules=cd.GREGORY, families=['chain', 'chain', 'small', 'tie', 'nearquota', 'bigmult', 'hugemult', 'mid', 'exactquota', 'exactquota', 'coalition'], tweak=tweak,
           extra=[('directed-coarse', 600, 20000, ['wigm'], ['mid', 'chain', 'coalition'])])
def replay(chk, payload): return cc.replay(chk, payload, ORACLES)
