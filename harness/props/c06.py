"""C06: Gregory transfers -- tallies equal ballot values; values only shrink, rounded down."""
from props import countcheck as cc
import count_driver as cd
ORACLES = ['c06']
def run(chk, ctx):
    chk.cov['rule'] = ("random elections (long chains with nested surpluses) x Gregory-family rules x arithmetics; scope: every ballot's index and raw "
                       "weight at every action plus tallies/statuses; oracle: P1 no hopeful skipped, P3 tally = sum of ballot values, P4 weights change "
                       "only at a surplus transfer to the prescribed truncated value, elected keeps the quota, 0<=w'<=w<=1")
    cc.run(chk, ctx, 'ballots', ORACLES, 800, 80000, rules=cd.GREGORY, families=['chain', 'chain', 'small', 'tie', 'nearquota', 'bigmult', 'hugemult', 'mid', 'exactquota', 'exactquota', 'coalition'])
def replay(chk, payload): return cc.replay(chk, payload, ORACLES)
