"""C10: the record depends on the ballots cast, not on how the file presents them."""
from props import countcheck as cc
ORACLES = ['c10']
def run(chk, ctx):
    chk.cov['rule'] = ("each random election is re-presented (ballot lines shuffled, identical ballots split/merged through multipliers, random "
                       "whitespace/line layout, # and nested /* */ comments, nicknames instead of numbers) and counted again: record, report and dump must be "
                       "byte-identical; scope vs model: full trace")
    cc.run(chk, ctx, 'full', ORACLES, 500, 60000, families=['small', 'tie', 'nearquota', 'chain', 'bigmult', 'withdrawn', 'mid'])
def replay(chk, payload): return cc.replay(chk, payload, ORACLES)
