"""C16: any text is either a valid profile or a clean profile error."""
import os
import parse_driver as pd
from props.c15 import merge

def run(chk, ctx):
    quick = ctx['tier'] == 'quick'
    use_model = ctx['model'] is not None
    procs = min(16, os.cpu_count() or 1)
    chk.cov['rule'] = ("malformed stream: hand corpus (every defect class of DESIGN §7, classification edge cases, 4300/4301-digit tokens, "
                       "256-candidate file, 2^64 boundary) + token soups over the BLT alphabet + truncation of valid renderings before every "
                       "token + single-token deletion/replacement/insertion/swap/duplication and character edits of valid renderings + "
                       "arbitrary Unicode (U+001C..1F, U+0085, U+00A0, U+2028/9, U+FEFF, other scripts' digits, superscripts, surrogates); "
                       "oracle: exception class is ElectionProfileError or none, no hang (20 s/case), accepted profile satisfies valid_profile, "
                       "and Election(profile, rule=r) succeeds for all 11 rules when the file embeds no options; implementation vs extracted "
                       "Coq model on every text; distinct = (generator, outcome class, profile features)")
    bad = pd.check_unicode_tables()
    chk.cov['unicode_tables'] = "range tables of coq/Gen/UnicodeTables.v vs interpreter on all 0x110000 code points (Python-side evaluation of the generated file): %s" % ("agree" if not bad else bad[:5])
    if bad:
        ctx['broken'].append("generated Unicode tables disagree with the interpreter: %s" % bad[:5])
    nchunks, per = (8, 2000) if quick else (320, 10000)
    outs = pd.run_chunks(pd.c16_chunk, [(chk.seed, i, per, use_model, i == 0) for i in range(nchunks)], procs)
    merge(chk, ctx, outs, 'malformed')
    tot = {}
    for o in outs:
        for k, v in o['outcomes'].items(): tot[k] = tot.get(k, 0) + v
    chk.cov['outcome_classes'] = tot
    chk.cov['accepted_profiles'] = sum(o['accepted'] for o in outs)
    chk.cov['constructor_checked_profiles_x11_rules'] = sum(o['ctor'] for o in outs)
    chk.notes.append("theorems: see Props/C16.v; the Election-constructor clause is checked on the implementation only (no model theorem)")

def replay(chk, payload):
    text = payload.get('text')
    if payload.get('codepoints') is not None:
        text = "".join(chr(c) for c in payload['codepoints'])
    r, p = pd.impl_parse(text, payload.get('mode', 0))
    print("implementation:\n" + r)
    if p is None:
        return 0 if r == 'Raise ElectionProfileError' else 1
    v = pd.valid_profile(p)
    cf = pd.constructor_failures(p) if (not v and not p.options) else []
    print("valid_profile complaints:", v, " constructor failures:", cf)
    return 0 if not v and not cf else 1
