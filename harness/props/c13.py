"""C13: Guarded arithmetic -- tolerance law, guard=0 is Fixed (per operation; per count once the count
model is in), quasi-exact vs exact (partial)."""
import values_driver as vd
from common import rng_for

def run(chk, ctx):
    quick = ctx['tier'] == 'quick'
    model = ctx['model']
    chk.cov['rule'] = ("Guarded operations on random/boundary operands incl. pairs within +-2 raw units of the tolerance, "
                       "p,g in 0..12; (i) implementation vs extracted kernels, (ii) tolerance/trichotomy oracle on the implementation, "
                       "(iii) guard=0: Guarded vs Fixed implementation on the same operands; distinct = (op, rounding, outcome kind, g bucket, near-tolerance)")
    cases = vd.gen_cases(chk.seed, 5000 if quick else 300000, classes=(1,))
    impl = [vd.impl_eval(c) for c in cases]
    mod = model.run_many([vd.to_tokens(c) for c in cases]) if model else [None] * len(cases)
    for c, i, m in zip(cases, impl, mod):
        chk.count()
        chk.nontrivial((c['op'], c['rnd'], i[:3], min(c['g'], 3), c['B'][0]))
        want = vd.oracle_c13_cmp(c, i)
        if want is not None and want != i:
            chk.violation("Guarded comparison violates the tolerance law", dict(case=c, implementation=i, expected=want),
                          signature=dict(kind='c13-tolerance'))
        if m is not None:
            chk.validated()
            if m != i:
                ctx['broken'].append("correspondence values/guarded: model %r vs implementation %r on %r" % (m, i, c))
                chk.violation("model and implementation disagree on a Guarded operation",
                              dict(case=c, implementation=i, model=m), found_input=False)
    chk.sample(dict(case=cases[0], implementation=impl[0], model=mod[0]))
    # trichotomy on the implementation
    rng = rng_for(chk.seed, 'c13-tri')
    ntri = 0
    for c in cases[:(2000 if quick else 50000)]:
        if c['B'][0] != 'v': continue
        rs = []
        for op in (15, 13, 17):
            cc = dict(c); cc['op'] = op; rs.append(vd.impl_eval(cc))
        ntri += 1
        if sorted(rs) != ['bool 0', 'bool 0', 'bool 1']:
            chk.violation("not exactly one of <, ==, > holds", dict(case=c, lt_eq_gt=rs), signature=dict(kind='c13-trichotomy'))
    chk.cov['trichotomy_pairs'] = ntri
    # guard = 0 twin: Guarded(p,0) == Fixed(p) on every operation (valid roundings, non-empty min)
    g0 = vd.gen_cases(chk.seed + 1, 3000 if quick else 150000, classes=(1,))
    n0 = 0
    for c in g0:
        c['g'] = 0
        if c['op'] in (19, 22): continue
        if c['op'] in (10, 11, 12) and c['rnd'] not in (0, 1): continue
        if c['op'] == 20 and not c['rest']: continue
        if c['op'] == 21 and (c['p'] == 0 or not (0 <= c['d'] <= c['p'])): continue   # integer arithmetic prints without a point (reading note, DESIGN C13)
        if c['op'] != 21: c['d'] = min(max(c['d'], 0), c['p'])
        a = vd.impl_eval(c); b = vd.impl_eval(vd.guard0_twin(c))
        n0 += 1; chk.count()
        chk.nontrivial(('g0', c['op'], c['rnd'], a[:3]))
        if a != b:
            chk.violation("guard=0 Guarded differs from Fixed on the same operation", dict(case=c, guarded=a, fixed=b),
                          signature=dict(kind='c13-guard0-op'))
    chk.cov['guard0_twin_cases'] = n0
    chk.notes.append("(b) per-count and (c) whole-count equivalences are compared by the count driver once registered (see evidence keys count_*)")
    try:
        import props.c13_counts as cc
        cc.run(chk, ctx)
    except ImportError:
        pass

def replay(chk, payload):
    c = payload['case']
    for k in 'ABC': c[k] = tuple(c[k])
    i = vd.impl_eval(c)
    print("implementation:", i, "tolerance-law expectation:", vd.oracle_c13_cmp(c, i))
    return 0
