"""C14: printed numbers are the stored values, correctly rounded (half-up), sign shown correctly."""
import values_driver as vd

def run(chk, ctx):
    quick = ctx['tier'] == 'quick'
    model = ctx['model']
    chk.cov['rule'] = ("str() of random/boundary values (negative, zero, carries such as 0.9995, huge) in Fixed, Guarded, Rational x "
                       "precision/guard/display; implementation vs model string, and a Fraction oracle that parses the printed string back "
                       "and compares with the half-up rounding; distinct = (class, sign, display relation, length bucket)")
    cases = vd.gen_cases(chk.seed, 8000 if quick else 500000, classes=(0, 1, 2), ops=[21], maxp=12)
    # carry-prone values
    extra = []
    for p in (1, 2, 3, 4, 9):
        for d in range(0, p + 1):
            for sgn in (1, -1):
                for k in (0, 1, 5 * 10 ** max(p - d - 1, 0), 5 * 10 ** max(p - d - 1, 0) - 1, 10 ** p - 1, 10 ** p - 5 * 10 ** max(p - d - 1, 0)):
                    extra.append(dict(cls=0, p=p, g=0, d=d, op=21, rnd=0, A=('v', sgn * k), B=('v', 0), C=('v', 0), rest=[]))
                    extra.append(dict(cls=1, p=p, g=2, d=d, op=21, rnd=0, A=('v', sgn * k * 100 + sgn * 50), B=('v', 0), C=('v', 0), rest=[]))
    # witnesses of the listed open findings run first (corpus)
    for k in chk.known:
        if k.get('status') == 'open' and 'case' in k:
            kc = dict(k['case'])
            for f in 'ABC': kc[f] = tuple(kc[f])
            extra.insert(0, kc)
    cases = extra + cases
    for c in cases:
        if c['cls'] == 1 and c['d'] < 0: c['d'] = 0
    impl = [vd.impl_eval(c) for c in cases]
    mod = model.run_many([vd.to_tokens(c) for c in cases]) if model else [None] * len(cases)
    for c, i, m in zip(cases, impl, mod):
        chk.count()
        chk.nontrivial((c['cls'], i[4:5] == '-', (c['d'] > c['p']) - (c['d'] < c['p']), min(len(i), 24) // 4))
        bad = vd.oracle_c14(c, i)
        if bad:
            chk.violation("printed form is not the half-up rounding of the stored value", dict(case=c, implementation=i, why=bad),
                          signature=dict(kind='c14-print', cls=c['cls'], precision_is_zero=(c['p'] == 0),
                                         display_beyond_precision=(c['cls'] == 1 and min(c['d'], c['p'] + c['g']) > c['p'])))
        if m is not None:
            chk.validated()
            if m != i:
                ctx['broken'].append("correspondence values/str: model %r vs implementation %r on %r" % (m, i, c))
                chk.violation("model and implementation print differently", dict(case=c, implementation=i, model=m), found_input=False)
    chk.sample(dict(case=cases[-1], implementation=impl[-1], model=mod[-1]))
    chk.sample(dict(case=cases[3], implementation=impl[3], model=mod[3]))
    chk.notes.append("string level: theorems are about the integers handed to the % format (fmt_value/fmt_wf); render_fmt (the % operator) is tied by this correspondence")

def replay(chk, payload):
    c = payload['case']
    for k in 'ABC': c[k] = tuple(c[k])
    i = vd.impl_eval(c)
    print("implementation:", i, "oracle:", vd.oracle_c14(c, i))
    return 1 if vd.oracle_c14(c, i) else 0
