"""C13 at the level of whole counts: (b) guarded guard=0 == fixed, (c) quasi-exact vs exact (partial)."""
import re, collections
import count_driver as cd
from common import rng_for
from props import countcheck as cc

def run(chk, ctx):
    quick = ctx['tier'] == 'quick'
    rng = rng_for(chk.seed, 'c13-counts')
    n = 250 if quick else 20000
    pairs = []
    for i in range(n):
        rule = rng.choice(['wigm', 'meek', 'warren'])
        e = cd.gen_election(rng)
        if rule != 'wigm' and rng.random() < 0.2: cd.add_equal_ranks(rng, e)
        p = rng.choice([1, 2, 3, 4, 6, 9])
        o1 = dict(rule=rule, arithmetic='guarded', precision=p, guard=0)
        o2 = dict(rule=rule, arithmetic='fixed', precision=p)
        if rule != 'wigm':
            om = rng.choice([1, 2, 3, p])          # the two arithmetic names pick different default omegas: fix it (DESIGN C13)
            o1['omega'] = om; o2['omega'] = om
            if rng.random() < 0.3: o1['defeat_batch'] = o2['defeat_batch'] = 'none'
        else:
            if rng.random() < 0.3: o1['integer_quota'] = o2['integer_quota'] = True
        blt = cd.render_blt(e)
        pairs.append((blt, o1, o2))
    res = cd.run_cases([(b, o1) for b, o1, o2 in pairs] + [(b, o2) for b, o1, o2 in pairs], timeout=15, use_model=False)
    ng = 0
    for k, (blt, o1, o2) in enumerate(pairs):
        a, b = res[k], res[k + len(pairs)]
        if 'timeout' in (a['status'], b['status']): continue
        chk.count(); ng += 1
        chk.nontrivial(('g0', o1['rule'], a['status'].split(':')[0], o1['precision']))
        if a['trace'] != b['trace'] or a['status'] != b['status']:
            d = cd.first_diff(a['trace'], b['trace'])
            chk.violation("a count under guarded guard=0 differs from the count under fixed of the same precision",
                          dict(blt=blt, guarded_options=o1, fixed_options=o2, first_difference=d),
                          signature=dict(kind='c13-guard0-count', rule=o1['rule']))
    chk.cov['guard0_count_pairs'] = ng
    # (c) quasi-exact vs exact
    n2 = 150 if quick else 10000
    trip = []
    for i in range(n2):
        rule = rng.choice(['wigm', 'wigm', 'meek', 'warren'])
        e = cd.gen_election(rng, maxc=6, maxb=7)
        o1 = dict(rule=rule, arithmetic='guarded'); o2 = dict(rule=rule, arithmetic='rational')
        if rule != 'wigm':
            o1['omega'] = o2['omega'] = rng.choice([3, 5])
        if rng.random() < 0.5:
            o1['precision'] = rng.choice([6, 9, 12])
        trip.append((cd.render_blt(e), o1, o2))
    res = cd.run_cases([(b, o1) for b, o1, o2 in trip] + [(b, o2) for b, o1, o2 in trip], oracle_names=('guarded_stats',), timeout=10, use_model=False)
    nq = 0; nclean = 0
    for k, (blt, o1, o2) in enumerate(trip):
        a, b = res[k], res[k + len(trip)]
        if a['status'] != 'ok' or b['status'] != 'ok': continue
        nq += 1; chk.count()
        st = [v for nme, v in a['oracle'] if nme == 'guarded_stats']
        if not st or not isinstance(st[0], dict): continue
        st = st[0]['sig']
        near = st['maxDiff'] * 1000 >= st['geps'] or st['minDiff'] <= st['geps'] * 1000
        if near: continue
        nclean += 1
        sa, sb = cd.project(a['trace'], 'states'), cd.project(b['trace'], 'states')
        if sa != sb:
            chk.violation("guarded count with no comparison near the tolerance differs in actions/statuses from the rational count",
                          dict(blt=blt, guarded_options=o1, rational_options=o2, stats=st, first_difference=cd.first_diff(sa, sb)),
                          signature=dict(kind='c13-quasi-exact', rule=o1['rule']))
    chk.cov['quasi_exact_pairs'] = nq; chk.cov['quasi_exact_pairs_without_near_comparisons'] = nclean
