"""C03: statutory rules carry out their published procedure, stage by stage."""
from props import countcheck as cc
import count_driver as cd
from common import rng_for
ORACLES = ['c04', 'c06', 'c07', 'c09']
def tweak(rng, e, o):
    if o['rule'] == 'wigm':
        o.clear(); o.update(rule='wigm', arithmetic='fixed', precision=4)
def run(chk, ctx):
    chk.cov['rule'] = ("random strict-ranking elections x the statutory rule names and wigm with fixed/4; the ENTIRE trace (every stage: who is elected, "
                       "excluded or transferred, messages, quota, every tally to the last digit, every ballot weight) is compared with the Coq model, which is the "
                       "procedure written over the proved arithmetic kernels; plus the clause oracles (quota, transfer values, lowest/sure-loser, ties) on the "
                       "implementation and wigm(fixed,4) vs wigm-prf history equality")
    cases, res = cc.run(chk, ctx, 'full', ORACLES, 1500, 150000, rules=cd.STATUTORY + ['wigm'], tweak=tweak,
                        families=['small', 'tie', 'nearquota', 'chain', 'starved', 'withdrawn', 'bigmult', 'hugemult', 'mid', 'exactquota', 'exactquota', 'coalition', 'cross'])
    # the parametric WIGM rule configured with the reference rule's parameters yields the reference rule's history
    rng = rng_for(chk.seed, 'c03-prf')
    n = 200 if ctx['tier'] == 'quick' else 20000
    pairs = [cd.render_blt(cd.gen_election(rng)) for _ in range(n)]
    r = cd.run_cases([(b, dict(rule='wigm', arithmetic='fixed', precision=4)) for b in pairs] + [(b, dict(rule='wigm-prf')) for b in pairs],
                     timeout=15, use_model=False)
    for k, b in enumerate(pairs):
        x, y = r[k], r[k + n]
        chk.count()
        if x['status'] != y['status'] or x['trace'] != y['trace']:
            chk.violation("wigm with arithmetic=fixed precision=4 does not yield wigm-prf's history",
                          dict(blt=b, first_difference=cd.first_diff(x['trace'], y['trace'])), signature=dict(kind='c03-wigm-as-prf'))
    # a disagreement with the model on a statutory rule is itself the failing history
    for blt, o, d in ctx.get('disagreement_cases', [])[:2]:
        chk.violation("the history of a %s count is not the one the procedure yields (first differing stage: %s)" % (o['rule'], d),
                      dict(blt=blt, options=o, first_difference=d), signature=dict(kind='c03-history', rule=o['rule']))
def replay(chk, payload):
    if 'options' not in payload: return 0
    return cc.replay(chk, payload, ORACLES)
