"""Shared body of the count-based property checks: corpus + generated elections, implementation vs model
under the property's scope, the property's oracles on the implementation."""
import os, json, collections, time
import count_driver as cd
from common import rng_for, VERIF

def load_corpus(pid):
    d = os.path.join(VERIF, 'corpus')
    out = []
    for fn in sorted(os.listdir(d)) if os.path.isdir(d) else []:
        if fn.endswith('.json'):
            c = json.load(open(os.path.join(d, fn)))
            if pid in c.get('properties', [pid]):
                out.append((c['blt'], c['options'], fn))
    return out

def gen_cases(chk, n, rules=None, families=None, label='count', tweak=None):
    rng = rng_for(chk.seed, label, chk.pid)
    cases = []
    for i in range(n):
        rule = rng.choice(rules) if rules else None
        o = cd.gen_options(rng, rule=rule)
        fam = rng.choice(families) if families else None
        if fam == 'tinyvote':
            pr = rng.choice([1, 1, 2])
            o = dict(rule=rng.choice(['wigm', 'wigm', 'meek', 'warren']), arithmetic='guarded', precision=pr, guard=rng.choice([1, 2]))
        eq = cd.exact_quota_params(o) if fam == 'exactquota' else None
        if fam == 'exactquota':
            e = cd.gen_exact_quota(rng, *eq) if eq else cd.gen_election(rng, family='nearquota')
        else:
            e = cd.gen_tinyvote(rng, o['precision']) if fam == 'tinyvote' else cd.gen_election(rng, family=fam)
        if o['rule'] == 'mpls' and e.get('family') != 'writein_strong':
            k = rng.random()
            if e['wd'] and k < 0.7: cd.add_undeclared(rng, e)       # withdrawn candidates that are also undeclared write-ins
            elif k < 0.35: e = cd.gen_writein_election(rng)
            elif k < 0.6: cd.add_undeclared(rng, e)
        if o['rule'] in ('meek', 'warren') and rng.random() < 0.25: cd.add_equal_ranks(rng, e)
        if tweak: tweak(rng, e, o)
        cases.append((cd.render_blt(e), o))
    return cases

def run(chk, ctx, scope, oracle_names, n_quick, n_thorough, rules=None, families=None, tweak=None, timeout=15,
        sig_extra=None, known_case_filter=None, extra=()):
    """extra: further case groups (label, n_quick, n_thorough, rules, families) generated after the main group"""
    quick = ctx['tier'] == 'quick'
    n = n_quick if quick else n_thorough
    corpus = load_corpus(chk.pid)
    # witnesses of the listed findings run first
    for k in chk.known:
        if 'blt' in k:
            corpus.insert(0, (k['blt'], k['options'], 'known:' + k['id']))
    cases = [(b, o) for b, o, _ in corpus] + gen_cases(chk, n, rules, families, tweak=tweak)
    for lab, nq, nt, rl, fm in extra:
        cases += gen_cases(chk, nq if quick else nt, rl, fm, label=lab, tweak=tweak)
    use_model = ctx['model'] is not None
    ne2e = (150 if quick else 3000) if use_model else 0
    res = cd.run_cases(cases, oracle_names=oracle_names, timeout=timeout, use_model=use_model, e2e=ne2e)
    dist = collections.Counter(); fam = collections.Counter(); e2e_stat = collections.Counter()
    notexp = 0; ndis = 0; dis_rule_set = set(); nhang = 0
    stats_tot = collections.Counter()
    for (blt, o), r in zip(cases, res):
        chk.count()
        st = r['status']
        dist[(o['rule'], o.get('arithmetic', 'default'), st.split(':')[0])] += 1
        if st == 'timeout':
            m = r.get('model')
            # a count that exceeds the budget under a finite-precision arithmetic while the model of the same case ends:
            # run it once more with four times the budget before calling it non-termination (rational Meek is legitimately slow)
            if nhang < 2 and m and r.get('arith') in ('fixed', 'guarded', 'integer') and not m.startswith('MODEL-TIMEOUT') and 'X OutOfFuel' not in m[-20:]:
                r2 = cd.run_cases([(blt, o)], oracle_names=(), timeout=4 * timeout, use_model=False)[0]
                if r2['status'] == 'timeout':
                    nhang += 1
                    nact = sum(1 for l in m.split("\n") if l.startswith('A '))
                    ndis += 1; dis_rule_set.add(o['rule'])
                    ctx['broken'].append("correspondence count/%s: the implementation does not end within %d s, the model ends after %d actions" % (scope, 4 * timeout, nact))
                    if 'c01' in oracle_names:
                        chk.violation("c01-nontermination: count still running after %d s; the model of the same election ends after %d actions" % (4 * timeout, nact),
                                      dict(blt=blt, options=o, oracle='c01', kind='c01-nontermination', status='timeout'),
                                      signature=dict(kind='c01-nontermination', rule=o['rule'], arithmetic=r.get('arith')))
                    continue
            notexp += 1; continue
        if st == 'harness-error':
            chk.violation("harness error", dict(blt=blt, options=o, error=r.get('err')), found_input=False); continue
        if st.startswith('reject') or st == 'profile-error':
            continue
        s_ = r.get('stats') or {}
        for k in ('ties', 'surplus_transfers', 'defeats', 'batches', 'nactions'):
            stats_tot[k] += s_.get(k, 0)
        chk.nontrivial((o['rule'], o.get('arithmetic'), st.split(':')[0], min(s_.get('ties', 0), 2), min(s_.get('surplus_transfers', 0), 3),
                        min(s_.get('defeats', 0), 3), min(s_.get('batches', 0), 1), s_.get('seats'), min(s_.get('ncand', 0), 8)))
        for name, v in r['oracle']:
            if not isinstance(v, dict):
                chk.violation("oracle %s raised" % name, dict(blt=blt, options=o, error=v), found_input=False); continue
            sig = dict(v['sig'])
            if sig_extra: sig.update(sig_extra(blt, o, r, v))
            chk.violation(v['kind'] + ": " + v['detail'][:300], dict(blt=blt, options=o, oracle=name, kind=v['kind'], detail=v['detail'], status=st),
                          signature=sig)
        m = r.get('model')
        if m is not None and r.get('e2e') is not None and not m.startswith('MODEL-TIMEOUT') and not r['e2e'].startswith('MODEL-TIMEOUT'):
            # text -> reader model -> count model must give what the count model gives on the profile the implementation parsed
            e2e_stat['compared'] += 1
            if r['e2e'] != m:
                e2e_stat['differ'] += 1
                ndis += 1; dis_rule_set.add(o['rule'])
                ctx['broken'].append("correspondence e2e: reader model + count model differ from the count model on the parsed profile: %s" %
                                     json.dumps(cd.first_diff(r['e2e'], m))[:400])
                if e2e_stat['differ'] <= 2:
                    chk.cov.setdefault('disagreements', []).append(dict(blt=blt, options=o, e2e_first_difference=cd.first_diff(r['e2e'], m)))
        if m is not None:
            if m.startswith('MODEL-TIMEOUT') or 'X OutOfFuel' in m[-20:]:
                notexp += 1
            else:
                chk.validated()
                a, b = cd.project(r['trace'], scope), cd.project(m, scope)
                if a != b:
                    ndis += 1; dis_rule_set.add(o['rule'])
                    d = cd.first_diff(a, b)
                    ctx['broken'].append("correspondence count/%s: %s" % (scope, json.dumps(d)[:400]))
                    if ndis <= 2:
                        chk.cov.setdefault('disagreements', []).append(dict(blt=blt, options=o, first_difference=d))
                        ctx.setdefault('disagreement_cases', []).append((blt, o, d))
    # the correspondence broke and no oracle fired: search for a failing input among more cases of the rules that disagreed
    if ndis and not chk.violations and oracle_names:
        dis_rules = sorted({o['rule'] for _, o, _ in ctx.get('disagreement_cases', [])} | set(dis_rule_set))
        fams = list(families or []) + ['coalition', 'cross', 'tie', 'nearquota']
        more = gen_cases(chk, 4000 if quick else 40000, dis_rules, fams, label='search-on-break', tweak=tweak)
        res2 = cd.run_cases(more, oracle_names=oracle_names, timeout=timeout, use_model=False)
        nhit = 0
        for (blt, o), r in zip(more, res2):
            for name, v in r['oracle']:
                if not isinstance(v, dict): continue
                sig = dict(v['sig'])
                if sig_extra: sig.update(sig_extra(blt, o, r, v))
                nhit += 1
                chk.violation(v['kind'] + ": " + v['detail'][:300], dict(blt=blt, options=o, oracle=name, kind=v['kind'], detail=v['detail'], status=r['status'],
                                                                         found_by='search after the correspondence broke'), signature=sig)
        chk.cov['search_on_break'] = dict(rules=dis_rules, cases=len(more), oracle_hits=nhit)
    chk.cov['input_distribution'] = {"%s/%s/%s" % k: v for k, v in sorted(dist.items())}
    chk.cov['trace_totals'] = dict(stats_tot)
    chk.cov['not_explored_budget'] = notexp
    chk.cov['e2e_reader_plus_count_model'] = dict(e2e_stat)
    chk.cov['counts_with_a_bystander_election_alive'] = sum(1 for r in res if r.get('bystander'))
    chk.cov['correspondence_scope'] = scope
    chk.cov['corpus_cases'] = len(corpus)
    if cases:
        chk.sample(dict(blt=cases[-1][0], options=cases[-1][1], status=res[-1]['status'],
                        trace_head=res[-1]['trace'].split("\n")[:6]))
    return cases, res

def replay(chk, payload, oracle_names):
    r = cd.run_cases([(payload['blt'], payload['options'])], oracle_names=oracle_names, timeout=60, use_model=False)[0]
    print("status:", r['status'])
    bad = 0
    for name, v in r['oracle']:
        print(name, v['kind'] if isinstance(v, dict) else 'ERR', (v['detail'] if isinstance(v, dict) else v)[:400]); bad = 1
    return bad
