"""C18: the record is a faithful audit trail and all renderings agree with it.
 (a) audit trail: full-trace correspondence implementation vs model + oracle c18_trail (oracles.py);
 (b) renderings: report / dump / JSON of the implementation vs the model's Record.v renderings (byte for byte)
     + oracle c18_renderings (oracles_render.py) on the implementation alone."""
import json, collections
from props import countcheck as cc
import count_driver as cd
import render_driver as rd
from common import rng_for

ORACLES = ['c18_trail']
RENDER_ORACLES = ['c18_renderings']

NAME_POOL = ['Al', 'Béa', 'C\\x', 'D"q"d', "O'Neil", '東京', 'Zoë \U0001F600', 'a\x7fb', 'x\x01y', 'Müller, K.', 'Smith, J',
             'Жук', '{brace}', '(paren)', 'tab\\t', '\U00010348', 'n° 5', '%s %d', 'Elected:  X (1)', 'ÿĀ￿']
TITLES = ['t', 'Election éè 2026', 'Back\\slash "quoted"', '\U0001F5F3 vote', 'x' * 40, 'a/b <c> &amp;', '\x7f']

def tweak(rng, e, o):
    """decorate names, title and options (everything that only the renderings show)"""
    if rng.random() < 0.5:
        pool = NAME_POOL[:]; rng.shuffle(pool)
        e['names'] = [pool[i] if (i < len(pool) and rng.random() < 0.7) else 'c%d' % (i + 1) for i in range(e['n'])]
        if rng.random() < 0.15 and e['n'] >= 2:
            e['names'][1] = e['names'][0]           # duplicate names are legal
    if rng.random() < 0.4:
        e['title'] = rng.choice(TITLES)
    x = rng.random()
    if x < 0.15: o['foo'] = rng.choice(['bar', '7', 'true', 'Bé'])          # unused option
    elif x < 0.25: o['dump'] = True; o['zz'] = 'no'
    if o['rule'] in cd.STATUTORY and rng.random() < 0.3:                         # overridden (forced) options
        k = rng.choice(['arithmetic', 'precision', 'display'])
        o[k] = rng.choice(['rational', 'fixed', 'guarded']) if k == 'arithmetic' else rng.choice(['3', 5, 2])
    elif o['rule'] not in cd.STATUTORY and 'display' not in o and o.get('arithmetic') in ('fixed', 'guarded', 'rational') and rng.random() < 0.25:
        o['display'] = rng.choice([0, 1, 3, 5, 11])

def decorate_blt(rng, blt):
    """source / comment strings, [nick ...] and [droop ...] lines: post-processing of a rendered BLT"""
    lines = blt.split('\n')
    n = int(lines[0].split()[0])
    ins = []
    x = rng.random()
    if x < 0.4:
        ins.append('[nick %s]' % ' '.join(rng.choice(['n%d', 'K%dk', 'é%d']) % (i + 1) for i in range(n)))
    if rng.random() < 0.4:
        ins.append('[droop %s]' % rng.choice(['bogus=1', 'display=4', 'precision=5 quux=yes', 'omega=4', 'arithmetic=guarded guard=2']))
    lines[1:1] = ins
    out = '\n'.join(lines)
    y = rng.random()
    if y < 0.7:
        out += '"%s"\n' % rng.choice(['the source', 'S ü "x', 'src\\n'])
        if y < 0.45:
            out += '"%s"\n' % rng.choice(['a comment', '{c} ☃', 'c'])
    return out

def run(chk, ctx):
    quick = ctx['tier'] == 'quick'
    chk.cov['rule'] = ("(a) corpus + random elections x all 11 rule names x accepted options, record-scope trace correspondence (tags, messages, rounds, "
                       "every status/pending/tally/keep factor/quotient/quota/total) + oracle c18_trail (first/last action, elect/defeat actions vs status changes, "
                       "final step vs E.elected/E.defeated); (b) the same cases plus decorated ones (non-ASCII / quoted / duplicate names, titles, "
                       "source, comment, nicknames, unused and overridden options, display, interrupt marker): E.report(), E.dump(), E.json() vs "
                       "Record.report_text / dump_text / json_text byte for byte, + oracle c18_renderings on the implementation "
                       "(json.loads, dump column counts, statuses/tallies/quota/totals of dump row vs JSON action vs report block vs E.erecord); "
                       "distinct = (method, arithmetic, outcome, ties, transfers, defeats, seats, candidates) and for (b) also "
                       "(pending shown, zero-vote defeated group, non-ASCII, header extras)")
    cases, res = cc.run(chk, ctx, 'record', ORACLES, 700, 60000, tweak=tweak,
                        extra=[('directed-tiny', 80, 4000, None, ['tinyvote'])])
    for blt, o, d in ctx.get('disagreement_cases', [])[:2]:
        chk.violation("count trace: model and implementation disagree", dict(blt=blt, options=o, first_difference=d), found_input=False)
    # ---- (b) renderings
    rng = rng_for(chk.seed, 'c18-decorate')
    extra = []
    for blt, o in cases[len(cases) - min(len(cases), 300 if quick else 20000):]:
        if rng.random() < 0.5:
            extra.append((decorate_blt(rng, blt), dict(o)))
    rcases = list(cases) + extra
    use_model = ctx['model'] is not None
    rres = rd.run_cases(rcases, oracle_names=RENDER_ORACLES, timeout=15, use_model=use_model)
    dist = collections.Counter(); ndis = 0; notexp = 0; nbytes = [0, 0, 0]
    for (blt, o), r in zip(rcases, rres):
        chk.count()
        st = r['status']
        if st == 'harness-error':
            chk.violation("harness error (render)", dict(blt=blt, options=o, error=r.get('err')), found_input=False); continue
        if st == 'timeout':
            notexp += 1; continue
        if st.startswith('reject') or st == 'profile-error':
            dist[('rejected',)] += 1; continue
        if r.get('render_exc'):
            chk.violation("a rendering raised: " + r['render_exc'].strip().split('\n')[-1][:200], dict(blt=blt, options=o, traceback=r['render_exc']),
                          signature=dict(kind='c18-render-exception', rule=o['rule']))
            continue
        if r.get('unsupported'):
            notexp += 1; continue
        s_ = r.get('stats') or {}
        nonascii = any(ord(ch) > 126 or ord(ch) < 32 for ch in blt if ch != '\n')
        dist[(r.get('method'), s_.get('arithmetic'), st.split(':')[0])] += 1
        chk.nontrivial(('render', r.get('method'), s_.get('arithmetic'), st.split(':')[0], min(s_.get('ties', 0), 1), min(s_.get('surplus_transfers', 0), 2),
                        min(s_.get('defeats', 0), 2), nonascii, '[nick' in blt, '[droop' in blt, len(o) > 1))
        for i in range(3): nbytes[i] += r['sizes'][i]
        for name, v in r['oracle']:
            if not isinstance(v, dict):
                chk.violation("oracle %s raised" % name, dict(blt=blt, options=o, error=v), found_input=False); continue
            chk.violation(v['kind'] + ": " + v['detail'][:300], dict(blt=blt, options=o, oracle=name, kind=v['kind'], detail=v['detail'], status=st),
                          signature=dict(v['sig']))
        ms = r.get('model_status')
        if ms == 'not-explored':
            notexp += 1
        elif ms is not None:
            chk.validated()
            if r['diff'] is not None:
                ndis += 1
                ctx['broken'].append("correspondence render/%s: %s" % (r['diff'].get('which'), json.dumps(r['diff'])[:400]))
                if ndis <= 2:
                    chk.cov.setdefault('render_disagreements', []).append(dict(blt=blt, options=o, difference=r['diff']))
                    chk.violation("rendering %s: model and implementation disagree" % r['diff'].get('which'),
                                  dict(blt=blt, options=o, difference=r['diff']), found_input=False)
    # ---- (c) interrupted counts, rendered in the driver's order report -> dump -> JSON: the three renderings and the record
    #      agree on the interruption too (one mark, the same actions, valid JSON)
    import interrupt_driver as idr
    nint = 0
    want = 10 if quick else 300
    for blt, o in cases[::max(1, len(cases) // want)][:want]:
        try:
            full, nlines = idr.full_run(blt, o)
        except BaseException:
            continue
        for k in sorted(set(8 * rng.randint(1, max(1, nlines // 8)) for _ in range(3))):
            bad, where = idr.interrupted_run(blt, o, k, full)      # k % 8 == 0: report, dump, json
            nint += 1; chk.count()
            for b in bad:
                chk.violation("interrupted count rendered as report, dump, JSON: " + b['kind'], dict(blt=blt, options=o, k=k, failure=b),
                              signature=dict(kind='c18-interrupted', failure=b['kind']))
    chk.cov['interrupted_counts_rendered'] = nint
    chk.cov['render_cases'] = len(rcases)
    chk.cov['render_decorated_cases'] = len(extra)
    chk.cov['render_input_distribution'] = {"/".join(str(x) for x in k): v for k, v in sorted(dist.items(), key=str)}
    chk.cov['render_not_explored_budget'] = notexp
    chk.cov['render_bytes_compared'] = dict(report=nbytes[0], dump=nbytes[1], json=nbytes[2])
    chk.cov['json_comparison'] = "exact text (json.dumps sort_keys indent=2 layout and escaping are modelled); tree-wise diff only to name a difference"
    if rcases:
        chk.sample(dict(blt=rcases[-1][0], options=rcases[-1][1], status=rres[-1]['status'], sizes=rres[-1].get('sizes')))

def replay(chk, payload):
    if 'k' in payload:
        import interrupt_driver as idr
        full, nlines = idr.full_run(payload['blt'], payload['options'])
        bad, where = idr.interrupted_run(payload['blt'], payload['options'], payload['k'], full)
        print("interrupted at", where, "->", bad or "renderings agree")
        return 1 if bad else 0
    bad = cc.replay(chk, payload, ORACLES)
    r = rd.run_cases([(payload['blt'], payload['options'])], oracle_names=RENDER_ORACLES, timeout=60, use_model=True, intr_every=0)[0]
    print("render status:", r['status'], "model:", r.get('model_status'))
    if r.get('render_exc'): print(r['render_exc']); bad = 1
    for name, v in r['oracle']:
        known = isinstance(v, dict) and chk.match_known(v['sig']) is not None
        print(name, v['kind'] if isinstance(v, dict) else 'ERR', "(known finding)" if known else "", (v['detail'] if isinstance(v, dict) else v)[:400])
        if not known: bad = 1
    if r.get('diff') is not None:
        print("model vs implementation:", json.dumps(r['diff'])[:1500]); bad = 1
    return bad
