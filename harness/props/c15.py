"""C15: a well-formed ballot file is read as exactly the election it denotes."""
import os
import parse_driver as pd

def merge(chk, ctx, outs, label):
    for o in outs:
        chk.count(o['n']); chk.validated(o['validated'])
        for k in o.get('distinct', ()): chk.nontrivial((label,) + tuple(k))
        for what, payload, sig in o.get('violations', []):
            chk.violation(what, payload, signature=sig)
        for b in o['broken']:
            ctx['broken'].append("correspondence parse/%s: model and implementation differ on %r" % (label, b['text'][:200]))
            chk.violation("%s: model and implementation disagree" % label, b, found_input=False)
        if o.get('sample'): chk.sample(o['sample'])

def run(chk, ctx):
    quick = ctx['tier'] == 'quick'
    use_model = ctx['model'] is not None
    procs = min(16, os.cpu_count() or 1)
    chk.cov['rule'] = ("random abstract elections (<= 40 candidates; names <= 30 chars with blanks, #, /* */, brackets, non-ASCII, "
                       "zero-width and BOM characters; withdrawn via -n and [withdrawn]; [undeclared]; [tie]; [nick]; [droop]; ballot ids; "
                       "equal rankings; multipliers up to 10^30; source/comment; trailing junk) x random renderings (any Unicode "
                       "whitespace and line boundaries between tokens, # comments, nested /* */ comments, numbers in other scripts' digits "
                       "with leading zeros, nickname-vs-number references, data= and path= (UTF-8, with and without BOM) routes); "
                       "oracle: parsed attributes == the abstract election after normalisation, and valid_profile; implementation vs "
                       "extracted Coq model on every text; distinct = (election features, route, layout style, comments)")
    bad = pd.check_unicode_tables()
    chk.cov['unicode_tables'] = "is_space / is_linebreak / digit_value range tables of coq/Gen/UnicodeTables.v evaluated on all 0x110000 code points against the interpreter (Python-side evaluation of the generated file): %s" % ("agree" if not bad else bad[:5])
    if bad:
        ctx['broken'].append("generated Unicode tables disagree with the interpreter: %s" % bad[:5])
    nchunks, per = (8, 500) if quick else (160, 1500)
    outs = pd.run_chunks(pd.c15_chunk, [(chk.seed, i, per, use_model) for i in range(nchunks)], procs)
    merge(chk, ctx, outs, 'wellformed')
    touts = pd.run_chunks(pd.tokens_chunk, [(chk.seed, i, 500 if quick else 3000, use_model) for i in range(4 if quick else 32)], procs)
    merge(chk, ctx, touts, 'tokens')
    chk.cov['tokenizer_scope_texts'] = sum(o['n'] for o in touts)
    chk.notes.append("theorems: see Props/C15.v; parts labelled _partial there are covered by this correspondence + oracle run only")

def replay(chk, payload):
    text = payload.get('text')
    if payload.get('codepoints') is not None:
        text = "".join(chr(c) for c in payload['codepoints'])
    mode = payload.get('mode', 0)
    if mode == pd.MODE_TOKENS:
        print(pd.impl_tokens(text)); return 0
    r, p = pd.impl_parse(text, mode)
    print("implementation:\n" + r)
    if 'expected' in payload:
        print("expected:\n" + payload['expected'])
        return 0 if r == payload['expected'] else 1
    return 0 if (r == 'Raise ElectionProfileError' or (p is not None and not pd.valid_profile(p))) else 1
