"""C11: neutrality -- candidate numbering is irrelevant and withdrawn means absent."""
from props import countcheck as cc
ORACLES = ['c11']
def tweak(rng, e, o):
    e['eq'] = []
def run(chk, ctx):
    chk.cov['rule'] = ("each random strict-ranking election is renumbered by a random permutation (names, tie order, ballots carried along) and "
                       "counted again: same winners by name and same final tallies; and every election with withdrawn candidates is compared with the election "
                       "in which they are deleted: identical record by name; scope vs model: statuses and values")
    cc.run(chk, ctx, 'values', ORACLES, 500, 60000, families=['small', 'tie', 'nearquota', 'chain', 'withdrawn', 'withdrawn', 'mid'], tweak=tweak)
def replay(chk, payload): return cc.replay(chk, payload, ORACLES)
