"""C11: neutrality -- candidate numbering is irrelevant and withdrawn means absent."""
from props import countcheck as cc
ORACLES = ['c11']
def tweak(rng, e, o):
    e['eq'] = []
def run(chk, ctx):
    chk.cov['rule'] = ("each random strict-ranking election is renumbered by a random permutation (names, tie order, ballots carried along) and "
                       "counted again: same winners by name and same final tallies; and every election with withdrawn candidates is compared with the election "
                       "in which they are deleted: identical record by name; scope vs model: statuses and values")
    cc.run(chk, ctx, 'values', ORACLES, 500, 60000, families=['small', 'tie', 'nearquota', 'chain', 'withdrawn', 'withdrawn', 'mid', 'cross'], tweak=tweak,
           extra=[('directed-ties', 300, 20000, ['scotland', 'scotland', 'scotland', 'wigm', 'meek', 'mpls', 'qpq', 'cfer'], ['cross', 'tie']),
                  ('directed-mpls-withdrawn', 200, 10000, ['mpls'], ['withdrawn'])])
    small_electorates(chk, ctx)

def small_electorates(chk, ctx):
    """withdrawn means absent, at the edge of validity: few ballots, several withdrawn candidates; the file that marks them
    and the file from which they are deleted must be accepted or rejected alike, with the same winners and tallies by name"""
    import count_driver as cd
    from common import rng_for
    rng = rng_for(chk.seed, 'c11-small')
    n = 150 if ctx['tier'] == 'quick' else 6000
    pairs = []
    for _ in range(n):
        nc = rng.randint(3, 7)
        wd = sorted(rng.sample(range(1, nc + 1), rng.randint(1, min(3, nc - 2))))
        elig = [c for c in range(1, nc + 1) if c not in wd]
        seats = rng.randint(1, max(1, len(elig) - 1))
        nb = rng.randint(max(1, len(elig) - 1), nc + 1)          # around len(eligible) .. nCand
        lines = []
        for _ in range(nb):
            r = rng.sample(range(1, nc + 1), rng.randint(1, nc))
            if not [c for c in r if c not in wd]: r.append(rng.choice(elig))
            lines.append((1, r))
        names = ['c%d' % i for i in range(1, nc + 1)]
        tie = list(range(1, nc + 1)); rng.shuffle(tie)
        e = dict(n=nc, s=seats, wd=wd, und=[], tie=tie, lines=lines, eq=[], names=names)
        ren = {c: i + 1 for i, c in enumerate(elig)}
        lines2 = [(m, [ren[c] for c in r if c in ren]) for m, r in lines]
        e2 = dict(n=len(elig), s=seats, wd=[], und=[], tie=[ren[c] for c in tie if c in ren], lines=[l for l in lines2 if l[1]], eq=[],
                  names=[names[c - 1] for c in elig])
        o = cd.gen_options(rng)
        pairs.append((cd.render_blt(e), cd.render_blt(e2), o))
    res = cd.run_cases([(a, o) for a, b, o in pairs] + [(b, o) for a, b, o in pairs], oracle_names=['final_by_name'], timeout=15, use_model=False)
    k = len(pairs)
    for i, (a, b, o) in enumerate(pairs):
        x, y = res[i], res[i + k]
        chk.count(); chk.nontrivial(('small-wd', o['rule'], x['status'].split(':')[0], y['status'].split(':')[0]))
        if 'timeout' in (x['status'], y['status']): continue
        fx = [v['detail'] for nm, v in x['oracle'] if isinstance(v, dict)]; fy = [v['detail'] for nm, v in y['oracle'] if isinstance(v, dict)]
        if x['status'].split(':')[0] != y['status'].split(':')[0] or fx != fy:
            chk.violation("withdrawing candidates is not the same as deleting them: marked file -> %s %s, deleted file -> %s %s" %
                          (x['status'], fx[:1], y['status'], fy[:1]),
                          dict(blt=a, deleted_blt=b, options=o, kind='c11-withdrawn-small'), signature=dict(kind='c11-withdrawn-small', rule=o['rule']))
def replay(chk, payload): return cc.replay(chk, payload, ORACLES)
