"""C07: only lowest candidates or sure losers are excluded; ties follow the tie order."""
from props import countcheck as cc
ORACLES = ['c07']
def tweak(rng, e, o):
    """the zero-vote crowd family is for wigm's defeat_batch=zero"""
    if e.get('family') == 'zeros' and o['rule'] == 'wigm': o['defeat_batch'] = 'zero'
def run(chk, ctx):
    chk.cov['rule'] = ("tie-rich random elections (incl. a directed family where two candidates tie at stage 3+ after their order crossed, and sure-loser batches with pending surpluses) x all rules x arithmetics x random tie orders; scope: actions, statuses and raw tallies; oracle: "
                       "single exclusion is lowest (within surplus for Meek, lowest quotient for QPQ), batches are sure losers leaving enough "
                       "candidates, largest surplus first, every tie logged and resolved by tie order (Scottish: prior stage), and "
                       "tie-order independence when no tie is logged (the count is re-run under a permuted tie order)")
    cc.run(chk, ctx, 'values', ORACLES + ['c07_independence'], 1000, 100000, families=['tie', 'tie', 'tie', 'cross', 'coalition', 'small', 'nearquota', 'mid'],
           extra=[('directed-batch', 1500, 60000, ['wigm-prf-batch', 'wigm-prf-batch', 'cfer-batch', 'cfer-batch', 'meek', 'mpls', 'warren'], ['coalition']),
                  ('directed-zero-batch', 300, 20000, ['wigm', 'wigm', 'wigm', 'wigm-prf-batch', 'cfer-batch'], ['zeros'])], tweak=tweak)
def replay(chk, payload): return cc.replay(chk, payload, ORACLES + ['c07_independence'])
