"""C19: an interrupted count can always be reported, as a prefix of the full count."""
import count_driver as cd
import interrupt_driver as idr
from common import rng_for

FIXED = '4 2\n[tie 4 3 1 2]\n3 1 2 3 0\n2 2 3 0\n2 3 4 0\n1 4 1 0\n1 2 0\n0\n"A" "B" "C" "D"\n"t"\n'

def run(chk, ctx):
    quick = ctx['tier'] == 'quick'
    rng = rng_for(chk.seed, 'c19')
    chk.cov['rule'] = ("KeyboardInterrupt injected (sys.settrace) at line events of package code during Election.count() of small counts of "
                       "every rule; quick: every rule on a fixed profile with a stride + 3 random profiles; thorough: every line event of 11 rules x "
                       "several profiles; oracle: report/dump/json(intr=True) succeed, carry the interrupt marker exactly once, JSON parses, and the "
                       "recorded actions (tag, msg, round, statuses, tallies) are a prefix of the uninterrupted record; distinct = (rule, code site of the interrupt)")
    jobs = []
    for rule in cd.RULES:
        o = dict(rule=rule)
        if rule in ('meek', 'warren'): o.update(arithmetic='fixed', precision=4)
        jobs.append((FIXED, o))
    for i in range(3 if quick else 12):
        e = cd.gen_election(rng, maxc=5, maxb=5)
        o = cd.gen_options(rng)
        if o.get('arithmetic') == 'rational' and o['rule'] in ('meek', 'warren'): o['arithmetic'] = 'fixed'; o['precision'] = 5
        jobs.append((cd.render_blt(e), o))
    total = 0
    for j, (blt, o) in enumerate(jobs):
        try:
            stride = (7 if quick else 1)
            r = idr.sweep(blt, o, stride=stride, offset=(chk.seed + j) % stride)
        except Exception as ex:
            chk.notes.append("sweep skipped for %r: %s" % (o, ex)); continue
        total += r['points']
        chk.count(r['points'])
        chk.cov.setdefault('sweeps', []).append(dict(options=o, points=r['points'], line_events=r['line_events'], actions=r['actions'],
                                                      failures=len(r['failures'])))
        sites = set()
        for b in r['failures']:
            chk.violation("%s at interruption point %s (%s)" % (b['kind'], b.get('k'), b.get('where')),
                          dict(blt=blt, options=o, failure=b), signature=dict(kind=b['kind'], rule=o['rule']))
        chk.nontrivial((o['rule'], r['line_events'] // 50))
        for k in range(0, r['points'], max(1, r['points'] // 40)):
            chk.nontrivial((o['rule'], 'pt', k))
    # the command-line driver catches the interrupt itself and renders what was asked for: every combination of report/dump/json
    mtotal = 0
    for j, (blt, o) in enumerate(jobs[::3] if quick else jobs):
        try:
            r = idr.main_sweep(blt, o, npoints=(4 if quick else 24))
        except Exception as ex:
            chk.notes.append("main sweep skipped for %r: %s" % (o, ex)); continue
        mtotal += r['points']; chk.count(r['points'])
        chk.nontrivial((o['rule'], 'main'))
        for b in r['failures']:
            chk.violation("%s through Droop.main at interruption point %s (%s)" % (b['kind'], b.get('k'), b.get('flags')),
                          dict(blt=blt, options=o, failure=b), signature=dict(kind=b['kind'], rule=o['rule']))
    chk.cov['main_interruption_runs'] = mtotal
    chk.cov['interruption_points'] = total
    chk.sample(dict(blt=FIXED, options=jobs[0][1], note="interrupt at every %d-th line event" % (7 if quick else 1)))
    chk.notes.append("model side: Props/C19.v (prefix theorem for interruptions between micro-operations); this driver covers interrupts at Python line granularity")

def replay(chk, payload):
    if payload['failure'].get('entry') == 'Droop.main':
        argv0 = ['%s=%s' % (k, str(v).lower() if isinstance(v, bool) else v) for k, v in sorted(payload['options'].items())]
        bad, pts = idr._main_work((payload['blt'], argv0, [payload['failure']['k']]))
        print(pts, bad)
        return 1 if bad else 0
    full, n = idr.full_run(payload['blt'], payload['options'])
    bad, where = idr.interrupted_run(payload['blt'], payload['options'], payload['failure']['k'], full)
    print(where, bad)
    return 1 if bad else 0
