"""Correspondence driver `render`: the three renderings of the election record (text report, tab-separated
dump, JSON) produced by /repo's droop and by the extracted Coq model (coq/Model/Record.v) for the same
election.  report and dump are compared byte for byte; the JSON text is compared byte for byte too
(the model reproduces json.dumps(sort_keys=True, indent=2) including its string escaping) and, when the
texts differ, tree-wise after json.loads so that the first differing path can be named."""
import os, sys, re, json, time, traceback, multiprocessing
import count_driver as cd
from common import tok_i, tok_s, Model

MARK_REPORT = "=== RENDER-REPORT ===\n"
MARK_DUMP = "=== RENDER-DUMP ===\n"
MARK_JSON = "=== RENDER-JSON ===\n"

class Unsupported(Exception):
    pass

# ------------------------------------------------------------------ tokens
def json_tokens(o):
    """prefix encoding of a JSON-able value, dict keys in json.dumps(sort_keys=True) order"""
    if o is None: return [tok_i(0)]
    if o is True: return [tok_i(1), tok_i(1)]
    if o is False: return [tok_i(1), tok_i(0)]
    if isinstance(o, int): return [tok_i(2), tok_i(o)]
    if isinstance(o, str): return [tok_i(3), tok_s(o)]
    if isinstance(o, (list, tuple)):
        t = [tok_i(4), tok_i(len(o))]
        for x in o: t += json_tokens(x)
        return t
    if isinstance(o, dict):
        t = [tok_i(5), tok_i(len(o))]
        for k, v in sorted(o.items()):
            if isinstance(k, bool): k = 'true' if k else 'false'
            elif k is None: k = 'null'
            elif isinstance(k, int): k = str(k)
            elif not isinstance(k, str): raise Unsupported("key %r" % (k,))
            t += [tok_s(k)] + json_tokens(v)
        return t
    raise Unsupported("value %r" % (o,))

def opt_tok(s):
    return [tok_i(0), tok_s('')] if s is None else [tok_i(1), tok_s(str(s))]

def header_tokens(E, intr=False):
    """the strings the count model does not compute, taken from the implementation"""
    rec = E.erecord
    if not rec.filled:
        rec._fill()
    t = [tok_s('render'), tok_i(1 if intr else 0), tok_s(rec['title']), tok_s(rec['droop_name']), tok_s(rec['droop_version']),
         tok_s(rec['rule_info']), tok_s(rec['arithmetic_info'])]
    un = E.options.unused(); ov = E.options.overrides()
    t += [tok_i(len(un))] + [tok_s(x) for x in un]
    t += [tok_i(len(ov))] + [tok_s(x) for x in ov]
    t += [tok_s(E.rule.quota_name)]
    om = rec.get('omega')
    t += opt_tok(None if om is None else str(om))
    t += opt_tok(rec.get('profile_source'))
    t += opt_tok(rec.get('profile_comment'))
    # Guarded comparison statistics: aggregates over every comparison executed (DESIGN 4.2); the two numbers
    # are read off the implementation, the shape of the report is the model's
    maxd, mind = str(getattr(E.V, 'maxDiff', '')), str(getattr(E.V, 'minDiff', ''))
    ar = rec.get('arithmetic_report')
    if ar:
        m1 = re.search(r'maxDiff: (\S*)  \(', ar); m2 = re.search(r'minDiff: (\S*)  \(', ar)
        if m1: maxd = m1.group(1)
        if m2: mind = m2.group(1)
    t += [tok_s(maxd), tok_s(mind)]
    t += json_tokens(rec['options'])
    return t

# ------------------------------------------------------------------ implementation side
def impl_render(blt, opts, intr=False, timeout=20):
    """count with the implementation and render; returns the impl_count dict plus report/dump/json/render_tokens"""
    r = cd.impl_count(blt, opts, timeout=timeout, want_E=True)
    E = r.get('E')
    if E is None or r['status'] in ('timeout',):
        return r
    try:
        r['report'] = E.erecord.report(True) if intr else E.report()
        r['dump'] = E.dump()
        r['json'] = E.json()
    except Exception:
        r['render_exc'] = traceback.format_exc()[-800:]
        return r
    try:
        r['render_tokens'] = header_tokens(E, intr) + r['tokens']
    except Unsupported as ex:
        r['render_unsupported'] = str(ex)
    return r

def split_model(out):
    if not out.startswith(MARK_REPORT): return None
    i = out.find(MARK_DUMP); j = out.find(MARK_JSON, i if i >= 0 else 0)
    if i < 0 or j < 0: return None
    return out[len(MARK_REPORT):i], out[i + len(MARK_DUMP):j], out[j + len(MARK_JSON):]

def tree_diff(a, b, path='$'):
    """first differing path of two json.loads trees"""
    if type(a) != type(b): return "%s: %r vs %r" % (path, a, b)
    if isinstance(a, dict):
        if list(a.keys()) != list(b.keys()):
            return "%s: keys %r vs %r" % (path, list(a.keys())[:30], list(b.keys())[:30])
        for k in a:
            d = tree_diff(a[k], b[k], path + '.' + k)
            if d: return d
        return None
    if isinstance(a, list):
        if len(a) != len(b): return "%s: length %d vs %d" % (path, len(a), len(b))
        for i, (x, y) in enumerate(zip(a, b)):
            d = tree_diff(x, y, "%s[%d]" % (path, i))
            if d: return d
        return None
    return None if a == b else "%s: %r vs %r" % (path, a, b)

def compare(r, model_out):
    """None when the model reproduces the three renderings, else a dict describing the first difference"""
    parts = split_model(model_out)
    if parts is None:
        return dict(which='protocol', model=model_out[:300])
    mrep, mdump, mjson = parts
    if mrep != r['report']:
        return dict(which='report', first_difference=cd.first_diff(r['report'], mrep))
    if mdump != r['dump']:
        return dict(which='dump', first_difference=cd.first_diff(r['dump'], mdump))
    if mjson != r['json']:
        try:
            d = tree_diff(json.loads(r['json']), json.loads(mjson))
        except Exception as ex:
            d = "json.loads failed: %s" % ex
        return dict(which='json' if d else 'json-text', tree_difference=d, first_difference=cd.first_diff(r['json'], mjson))
    return None

# ------------------------------------------------------------------ parallel execution
_model = None
def _worker(args):
    global _model
    idx, blt, opts, timeout, oracle_names, use_model, intr = args
    t0 = time.time()
    try:
        r = impl_render(blt, opts, intr=intr, timeout=timeout)
    except Exception:
        return dict(idx=idx, status='harness-error', err=traceback.format_exc()[-800:], oracle=[], diff=None, model_status=None)
    out = dict(idx=idx, status=r['status'], oracle=[], diff=None, model_status=None, msg=r.get('msg'),
               render_exc=r.get('render_exc'), unsupported=r.get('render_unsupported'),
               sizes=(len(r.get('report', '')), len(r.get('dump', '')), len(r.get('json', ''))))
    E = r.get('E')
    if E is not None and 'json' in r:
        import oracles
        for name in oracle_names:
            try:
                out['oracle'] += [(name, v) for v in getattr(oracles, name)(E, blt, opts, r)]
            except Exception:
                out['oracle'].append((name, 'ORACLE-ERROR ' + traceback.format_exc()[-600:]))
        out['stats'] = oracles.trace_stats(E)
        out['method'] = E.rule.method
    if use_model and r.get('render_tokens') is not None:
        if _model is None:
            _model = Model('fast')
        m = _model.run_timeout(r['render_tokens'], max(timeout, 10))
        if m.startswith('MODEL-TIMEOUT') or m.startswith('X OutOfFuel'):
            out['model_status'] = 'not-explored'
        elif m.startswith('MODEL-CRASH'):
            out['model_status'] = 'crash'; out['diff'] = dict(which='model-crash', model=m[:300])
        else:
            out['model_status'] = 'ran'
            out['diff'] = compare(r, m)
    out['wall'] = time.time() - t0
    return out

def run_cases(cases, oracle_names=('c18_renderings',), timeout=20, nproc=None, use_model=True, intr_every=7):
    """cases: list of (blt, opts).  Every intr_every-th case renders the report with the interrupt marker."""
    nproc = nproc or min(16, os.cpu_count() or 4)
    args = [(i, blt, opts, timeout, tuple(oracle_names), use_model, bool(intr_every and i % intr_every == intr_every - 1))
            for i, (blt, opts) in enumerate(cases)]
    if len(cases) < 8 or nproc == 1:
        return [_worker(a) for a in args]
    ctx = multiprocessing.get_context('fork')
    with ctx.Pool(nproc, maxtasksperchild=400) as pool:
        res = pool.map(_worker, args, chunksize=max(1, min(50, len(args) // (nproc * 4) or 1)))
    return res

if __name__ == '__main__':
    # ad-hoc: python render_driver.py <rule> < file.blt
    blt = sys.stdin.read()
    opts = dict(rule=sys.argv[1] if len(sys.argv) > 1 else 'wigm')
    for a in sys.argv[2:]:
        k, v = a.split('='); opts[k] = v
    r = impl_render(blt, opts)
    print(r['status'])
    m = Model('fast').run_timeout(r['render_tokens'], 60)
    d = compare(r, m)
    print("agree" if d is None else json.dumps(d, indent=1)[:3000])
    import oracles_render
    for v in oracles_render.c18_renderings(r['E'], blt, opts, r): print(v)
