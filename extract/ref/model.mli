
type __ = Obj.t

val negb : bool -> bool

type nat =
| O
| S of nat

val snd : ('a1 * 'a2) -> 'a2

type comparison =
| Eq
| Lt
| Gt

val compOpp : comparison -> comparison

type uint =
| Nil
| D0 of uint
| D1 of uint
| D2 of uint
| D3 of uint
| D4 of uint
| D5 of uint
| D6 of uint
| D7 of uint
| D8 of uint
| D9 of uint

type signed_int =
| Pos of uint
| Neg of uint

val revapp : uint -> uint -> uint

val rev : uint -> uint

module Little :
 sig
  val double : uint -> uint

  val succ_double : uint -> uint
 end

val add : nat -> nat -> nat

val sub : nat -> nat -> nat

type positive =
| XI of positive
| XO of positive
| XH

type n =
| N0
| Npos of positive

type z =
| Z0
| Zpos of positive
| Zneg of positive

module Pos :
 sig
  type mask =
  | IsNul
  | IsPos of positive
  | IsNeg
 end

module Coq_Pos :
 sig
  val succ : positive -> positive

  val add : positive -> positive -> positive

  val add_carry : positive -> positive -> positive

  val pred_double : positive -> positive

  type mask = Pos.mask =
  | IsNul
  | IsPos of positive
  | IsNeg

  val succ_double_mask : mask -> mask

  val double_mask : mask -> mask

  val double_pred_mask : positive -> mask

  val sub_mask : positive -> positive -> mask

  val sub_mask_carry : positive -> positive -> mask

  val sub : positive -> positive -> positive

  val mul : positive -> positive -> positive

  val iter : ('a1 -> 'a1) -> 'a1 -> positive -> 'a1

  val size_nat : positive -> nat

  val compare_cont : comparison -> positive -> positive -> comparison

  val compare : positive -> positive -> comparison

  val eqb : positive -> positive -> bool

  val ggcdn : nat -> positive -> positive -> positive * (positive * positive)

  val ggcd : positive -> positive -> positive * (positive * positive)

  val iter_op : ('a1 -> 'a1 -> 'a1) -> positive -> 'a1 -> 'a1

  val to_nat : positive -> nat

  val of_succ_nat : nat -> positive

  val to_little_uint : positive -> uint

  val to_uint : positive -> uint
 end

module N :
 sig
  val of_nat : nat -> n
 end

val zero : char

val one : char

val shift : bool -> char -> char

val ascii_of_pos : positive -> char

val ascii_of_N : n -> char

val ascii_of_nat : nat -> char

val fold_left : ('a1 -> 'a2 -> 'a1) -> 'a2 list -> 'a1 -> 'a1

val existsb : ('a1 -> bool) -> 'a1 list -> bool

module Z :
 sig
  val double : z -> z

  val succ_double : z -> z

  val pred_double : z -> z

  val pos_sub : positive -> positive -> z

  val add : z -> z -> z

  val opp : z -> z

  val sub : z -> z -> z

  val mul : z -> z -> z

  val pow_pos : z -> positive -> z

  val pow : z -> z -> z

  val compare : z -> z -> comparison

  val sgn : z -> z

  val leb : z -> z -> bool

  val ltb : z -> z -> bool

  val eqb : z -> z -> bool

  val abs : z -> z

  val to_nat : z -> nat

  val to_pos : z -> positive

  val to_int : z -> signed_int

  val pos_div_eucl : positive -> z -> z * z

  val div_eucl : z -> z -> z * z

  val div : z -> z -> z

  val modulo : z -> z -> z

  val ggcd : z -> z -> z * (z * z)
 end

val zeq_bool : z -> z -> bool

val length : string -> nat

type q = { qnum : z; qden : positive }

val inject_Z : z -> q

val qcompare : q -> q -> comparison

val qeq_bool : q -> q -> bool

val qplus : q -> q -> q

val qmult : q -> q -> q

val qopp : q -> q

val qminus : q -> q -> q

val qinv : q -> q

val qdiv : q -> q -> q

val qred : q -> q

type exn =
| ZeroDivisionError
| ValueError
| IndexError
| TypeError
| AttributeError
| AssertionError
| KeyError
| UnboundLocalError
| OverflowError
| NotImplementedErr
| UsageError
| ElectionError
| ElectionProfileError

type 'a res =
| Ok of 'a
| Raise of exn

val bind : 'a1 res -> ('a1 -> 'a2 res) -> 'a2 res

type operand =
| OInt of z
| OVal of z

val operand_raw : operand -> z

val operand_value : operand -> z res

val res_true : bool res -> bool

type rnd =
| RUp
| RDown
| RNone
| ROther

val rnd_eqb : rnd -> rnd -> bool

val rnd_in : rnd -> rnd list -> bool

val pydiv : z -> z -> z res

val pymod : z -> z -> z res

val pydivmod : z -> z -> (z * z) res

val truthy : z -> bool

val py_min_by : ('a1 -> 'a1 -> bool) -> 'a1 list -> 'a1 res

type fixed_cls = { f_precision : z; f_display : z; f_scale : z; f_scaled : 
                   z; f_scaledd : z; f_scaledr : z }

type guarded_cls = { g_precision : z; g_guard : z; g_display : z;
                     g_scale : z; g_scalep : z; g_scaleg : z; g_scaled : 
                     z; g_scaledd : z; g_scaledr : z; g_scaledg : z;
                     g_geps : z }

type fmt_args =
| Fmt2 of z * z
| Fmt3 of z * z * z
| FmtInt of z
| FmtNeg of fmt_args

module NilEmpty :
 sig
  val string_of_uint : uint -> string
 end

module NilZero :
 sig
  val string_of_uint : uint -> string

  val string_of_int : signed_int -> string
 end

val string_of_Z : z -> string

val zeros : nat -> string

val pad0 : z -> z -> string

val render_fmt : z -> z -> fmt_args -> string

val qfloor : q -> z

val init_r : fixed_cls -> operand -> bool -> z res

val init : fixed_cls -> operand -> bool -> z

val dunder_add : fixed_cls -> z -> operand -> z res

val dunder_sub : fixed_cls -> z -> operand -> z res

val dunder_neg : fixed_cls -> z -> z res

val dunder_pos : fixed_cls -> z -> z res

val dunder_bool : fixed_cls -> z -> bool res

val dunder_abs : fixed_cls -> z -> z res

val dunder_mul : fixed_cls -> z -> operand -> z res

val dunder_floordiv : fixed_cls -> z -> operand -> z res

val mul0 : fixed_cls -> operand -> operand -> rnd -> z res

val div0 : fixed_cls -> operand -> operand -> rnd -> z res

val muldiv : fixed_cls -> operand -> operand -> operand -> rnd -> z res

val dunder_eq : fixed_cls -> z -> operand -> bool res

val dunder_ne : fixed_cls -> z -> operand -> bool res

val dunder_lt : fixed_cls -> z -> operand -> bool res

val dunder_le : fixed_cls -> z -> operand -> bool res

val dunder_gt : fixed_cls -> z -> operand -> bool res

val dunder_ge : fixed_cls -> z -> operand -> bool res

val min : fixed_cls -> z list -> z res

val dunder_str : fixed_cls -> z -> fmt_args res

val dunder_truediv : fixed_cls -> z -> operand -> z res

val init_r0 : guarded_cls -> operand -> bool -> z res

val init0 : guarded_cls -> operand -> bool -> z

val dunder_add0 : guarded_cls -> z -> operand -> z res

val dunder_sub0 : guarded_cls -> z -> operand -> z res

val dunder_neg0 : guarded_cls -> z -> z res

val dunder_pos0 : guarded_cls -> z -> z res

val dunder_bool0 : guarded_cls -> z -> bool res

val dunder_abs0 : guarded_cls -> z -> z res

val dunder_mul0 : guarded_cls -> z -> operand -> z res

val dunder_floordiv0 : guarded_cls -> z -> operand -> z res

val mul1 : guarded_cls -> operand -> operand -> rnd -> z res

val div1 : guarded_cls -> operand -> operand -> rnd -> z res

val muldiv0 : guarded_cls -> operand -> operand -> operand -> rnd -> z res

val dunder_cmp : guarded_cls -> z -> operand -> z res

val dunder_eq0 : guarded_cls -> z -> operand -> bool res

val dunder_ne0 : guarded_cls -> z -> operand -> bool res

val dunder_lt0 : guarded_cls -> z -> operand -> bool res

val dunder_le0 : guarded_cls -> z -> operand -> bool res

val dunder_gt0 : guarded_cls -> z -> operand -> bool res

val dunder_ge0 : guarded_cls -> z -> operand -> bool res

val min0 : guarded_cls -> z list -> z res

val dunder_str0 : guarded_cls -> z -> fmt_args res

val dunder_hash : guarded_cls -> z -> z res

val dunder_truediv0 : guarded_cls -> z -> operand -> z res

val unres : 'a1 -> 'a1 res -> 'a1

type arith = { of_int : (z -> __); add0 : (__ -> __ -> __);
               sub0 : (__ -> __ -> __); mulv : (__ -> __ -> __);
               divv : (__ -> __ -> __ res); floordivv : (__ -> __ -> __ res);
               kmul : (__ -> __ -> rnd -> __);
               kdiv : (__ -> __ -> rnd -> __ res);
               kmuldiv : (__ -> __ -> __ -> rnd -> __ res);
               eqv : (__ -> __ -> bool); ltv : (__ -> __ -> bool);
               lev : (__ -> __ -> bool); gtv : (__ -> __ -> bool);
               gev : (__ -> __ -> bool); truth : (__ -> bool);
               vmin : (__ list -> __ res); epsilon : __; exact : bool;
               aname : string; ainfo : string; str : (__ -> string);
               raw_repr : (__ -> string);
               areport : (string -> string -> string) }

type t = __

val nev : arith -> t -> t -> bool

val fixed_display : z -> z -> z

val mk_fixed_cls : z -> z -> fixed_cls

val fixed_str : fixed_cls -> z -> string

val fixed_info : z -> z -> string

val fixed : z -> z -> arith

val mk_guarded_cls : z -> z -> z -> z -> guarded_cls

val guarded_str : guarded_cls -> z -> string

val guarded_info : z -> z -> z -> string

val tab : string

val nl : string

val guarded_report : guarded_cls -> string -> string -> string

val guarded : z -> z -> z -> z -> arith

val qz : q -> bool

val q_div : q -> q -> q res

val q_floordiv : q -> q -> q res

val q_lt : q -> q -> bool

val q_le : q -> q -> bool

val rational_fmt : z -> q -> fmt_args

val rational_str : z -> q -> string

val rational : z -> arith

type tok =
| TI of z
| TS of string

val exn_name : exn -> string

val show_resZ : z res -> string

val show_resB : bool res -> string

val mk_operand : z -> z -> operand

val mk_rnd : z -> rnd

val toks_ints : tok list -> z list

val run_fixed :
  z -> z -> z -> z -> z -> z -> z -> z -> z -> z -> z list -> string

val run_guarded :
  z -> z -> z -> z -> z -> z -> z -> z -> z -> z -> z -> z -> z list -> string

val mkq : z -> z -> q

val show_q : q -> string

val show_resQ : q res -> string

val showb : bool -> string

val run_rational : z -> z -> z -> z -> z -> z -> z -> z -> z -> string

val run_values : z list -> string

val run : tok list -> string
