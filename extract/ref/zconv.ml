(* decimal string -> extracted inductive Z, using only extracted operations *)
open Model
let rec pos_of_int n = if n = 1 then XH else if n land 1 = 0 then XO (pos_of_int (n lsr 1)) else XI (pos_of_int (n lsr 1))
let z_of_small n = if n = 0 then Z0 else if n > 0 then Zpos (pos_of_int n) else Zneg (pos_of_int (-n))
let of_string s =
  let neg = String.length s > 0 && s.[0] = '-' in
  let body = if neg then String.sub s 1 (String.length s - 1) else s in
  let ten = z_of_small 10 in
  let acc = ref Z0 in
  String.iter (fun c -> acc := Z.add (Z.mul !acc ten) (z_of_small (Char.code c - 48))) body;
  if neg then Z.opp !acc else !acc
