
type __ = Obj.t

(** val negb : bool -> bool **)

let negb = function
| true -> false
| false -> true

type nat =
| O
| S of nat

(** val snd : ('a1 * 'a2) -> 'a2 **)

let snd = function
| (_, y) -> y

type comparison =
| Eq
| Lt
| Gt

(** val compOpp : comparison -> comparison **)

let compOpp = function
| Eq -> Eq
| Lt -> Gt
| Gt -> Lt

type uint =
| Nil
| D0 of uint
| D1 of uint
| D2 of uint
| D3 of uint
| D4 of uint
| D5 of uint
| D6 of uint
| D7 of uint
| D8 of uint
| D9 of uint

type signed_int =
| Pos of uint
| Neg of uint

(** val revapp : uint -> uint -> uint **)

let rec revapp d d' =
  match d with
  | Nil -> d'
  | D0 d0 -> revapp d0 (D0 d')
  | D1 d0 -> revapp d0 (D1 d')
  | D2 d0 -> revapp d0 (D2 d')
  | D3 d0 -> revapp d0 (D3 d')
  | D4 d0 -> revapp d0 (D4 d')
  | D5 d0 -> revapp d0 (D5 d')
  | D6 d0 -> revapp d0 (D6 d')
  | D7 d0 -> revapp d0 (D7 d')
  | D8 d0 -> revapp d0 (D8 d')
  | D9 d0 -> revapp d0 (D9 d')

(** val rev : uint -> uint **)

let rev d =
  revapp d Nil

module Little =
 struct
  (** val double : uint -> uint **)

  let rec double = function
  | Nil -> Nil
  | D0 d0 -> D0 (double d0)
  | D1 d0 -> D2 (double d0)
  | D2 d0 -> D4 (double d0)
  | D3 d0 -> D6 (double d0)
  | D4 d0 -> D8 (double d0)
  | D5 d0 -> D0 (succ_double d0)
  | D6 d0 -> D2 (succ_double d0)
  | D7 d0 -> D4 (succ_double d0)
  | D8 d0 -> D6 (succ_double d0)
  | D9 d0 -> D8 (succ_double d0)

  (** val succ_double : uint -> uint **)

  and succ_double = function
  | Nil -> D1 Nil
  | D0 d0 -> D1 (double d0)
  | D1 d0 -> D3 (double d0)
  | D2 d0 -> D5 (double d0)
  | D3 d0 -> D7 (double d0)
  | D4 d0 -> D9 (double d0)
  | D5 d0 -> D1 (succ_double d0)
  | D6 d0 -> D3 (succ_double d0)
  | D7 d0 -> D5 (succ_double d0)
  | D8 d0 -> D7 (succ_double d0)
  | D9 d0 -> D9 (succ_double d0)
 end

module Coq__1 = struct
 (** val add : nat -> nat -> nat **)
 let rec add n0 m =
   match n0 with
   | O -> m
   | S p -> S (add p m)
end
include Coq__1

(** val sub : nat -> nat -> nat **)

let rec sub n0 m =
  match n0 with
  | O -> n0
  | S k -> (match m with
            | O -> n0
            | S l -> sub k l)

type positive =
| XI of positive
| XO of positive
| XH

type n =
| N0
| Npos of positive

type z =
| Z0
| Zpos of positive
| Zneg of positive

module Pos =
 struct
  type mask =
  | IsNul
  | IsPos of positive
  | IsNeg
 end

module Coq_Pos =
 struct
  (** val succ : positive -> positive **)

  let rec succ = function
  | XI p -> XO (succ p)
  | XO p -> XI p
  | XH -> XO XH

  (** val add : positive -> positive -> positive **)

  let rec add x y =
    match x with
    | XI p ->
      (match y with
       | XI q0 -> XO (add_carry p q0)
       | XO q0 -> XI (add p q0)
       | XH -> XO (succ p))
    | XO p ->
      (match y with
       | XI q0 -> XI (add p q0)
       | XO q0 -> XO (add p q0)
       | XH -> XI p)
    | XH -> (match y with
             | XI q0 -> XO (succ q0)
             | XO q0 -> XI q0
             | XH -> XO XH)

  (** val add_carry : positive -> positive -> positive **)

  and add_carry x y =
    match x with
    | XI p ->
      (match y with
       | XI q0 -> XI (add_carry p q0)
       | XO q0 -> XO (add_carry p q0)
       | XH -> XI (succ p))
    | XO p ->
      (match y with
       | XI q0 -> XO (add_carry p q0)
       | XO q0 -> XI (add p q0)
       | XH -> XO (succ p))
    | XH ->
      (match y with
       | XI q0 -> XI (succ q0)
       | XO q0 -> XO (succ q0)
       | XH -> XI XH)

  (** val pred_double : positive -> positive **)

  let rec pred_double = function
  | XI p -> XI (XO p)
  | XO p -> XI (pred_double p)
  | XH -> XH

  type mask = Pos.mask =
  | IsNul
  | IsPos of positive
  | IsNeg

  (** val succ_double_mask : mask -> mask **)

  let succ_double_mask = function
  | IsNul -> IsPos XH
  | IsPos p -> IsPos (XI p)
  | IsNeg -> IsNeg

  (** val double_mask : mask -> mask **)

  let double_mask = function
  | IsPos p -> IsPos (XO p)
  | x0 -> x0

  (** val double_pred_mask : positive -> mask **)

  let double_pred_mask = function
  | XI p -> IsPos (XO (XO p))
  | XO p -> IsPos (XO (pred_double p))
  | XH -> IsNul

  (** val sub_mask : positive -> positive -> mask **)

  let rec sub_mask x y =
    match x with
    | XI p ->
      (match y with
       | XI q0 -> double_mask (sub_mask p q0)
       | XO q0 -> succ_double_mask (sub_mask p q0)
       | XH -> IsPos (XO p))
    | XO p ->
      (match y with
       | XI q0 -> succ_double_mask (sub_mask_carry p q0)
       | XO q0 -> double_mask (sub_mask p q0)
       | XH -> IsPos (pred_double p))
    | XH -> (match y with
             | XH -> IsNul
             | _ -> IsNeg)

  (** val sub_mask_carry : positive -> positive -> mask **)

  and sub_mask_carry x y =
    match x with
    | XI p ->
      (match y with
       | XI q0 -> succ_double_mask (sub_mask_carry p q0)
       | XO q0 -> double_mask (sub_mask p q0)
       | XH -> IsPos (pred_double p))
    | XO p ->
      (match y with
       | XI q0 -> double_mask (sub_mask_carry p q0)
       | XO q0 -> succ_double_mask (sub_mask_carry p q0)
       | XH -> double_pred_mask p)
    | XH -> IsNeg

  (** val sub : positive -> positive -> positive **)

  let sub x y =
    match sub_mask x y with
    | IsPos z0 -> z0
    | _ -> XH

  (** val mul : positive -> positive -> positive **)

  let rec mul x y =
    match x with
    | XI p -> add y (XO (mul p y))
    | XO p -> XO (mul p y)
    | XH -> y

  (** val iter : ('a1 -> 'a1) -> 'a1 -> positive -> 'a1 **)

  let rec iter f x = function
  | XI n' -> f (iter f (iter f x n') n')
  | XO n' -> iter f (iter f x n') n'
  | XH -> f x

  (** val size_nat : positive -> nat **)

  let rec size_nat = function
  | XI p0 -> S (size_nat p0)
  | XO p0 -> S (size_nat p0)
  | XH -> S O

  (** val compare_cont : comparison -> positive -> positive -> comparison **)

  let rec compare_cont r x y =
    match x with
    | XI p ->
      (match y with
       | XI q0 -> compare_cont r p q0
       | XO q0 -> compare_cont Gt p q0
       | XH -> Gt)
    | XO p ->
      (match y with
       | XI q0 -> compare_cont Lt p q0
       | XO q0 -> compare_cont r p q0
       | XH -> Gt)
    | XH -> (match y with
             | XH -> r
             | _ -> Lt)

  (** val compare : positive -> positive -> comparison **)

  let compare =
    compare_cont Eq

  (** val eqb : positive -> positive -> bool **)

  let rec eqb p q0 =
    match p with
    | XI p0 -> (match q0 with
                | XI q1 -> eqb p0 q1
                | _ -> false)
    | XO p0 -> (match q0 with
                | XO q1 -> eqb p0 q1
                | _ -> false)
    | XH -> (match q0 with
             | XH -> true
             | _ -> false)

  (** val ggcdn :
      nat -> positive -> positive -> positive * (positive * positive) **)

  let rec ggcdn n0 a b =
    match n0 with
    | O -> (XH, (a, b))
    | S n1 ->
      (match a with
       | XI a' ->
         (match b with
          | XI b' ->
            (match compare a' b' with
             | Eq -> (a, (XH, XH))
             | Lt ->
               let (g, p) = ggcdn n1 (sub b' a') a in
               let (ba, aa) = p in (g, (aa, (add aa (XO ba))))
             | Gt ->
               let (g, p) = ggcdn n1 (sub a' b') b in
               let (ab, bb) = p in (g, ((add bb (XO ab)), bb)))
          | XO b0 ->
            let (g, p) = ggcdn n1 a b0 in
            let (aa, bb) = p in (g, (aa, (XO bb)))
          | XH -> (XH, (a, XH)))
       | XO a0 ->
         (match b with
          | XI _ ->
            let (g, p) = ggcdn n1 a0 b in
            let (aa, bb) = p in (g, ((XO aa), bb))
          | XO b0 -> let (g, p) = ggcdn n1 a0 b0 in ((XO g), p)
          | XH -> (XH, (a, XH)))
       | XH -> (XH, (XH, b)))

  (** val ggcd : positive -> positive -> positive * (positive * positive) **)

  let ggcd a b =
    ggcdn (Coq__1.add (size_nat a) (size_nat b)) a b

  (** val iter_op : ('a1 -> 'a1 -> 'a1) -> positive -> 'a1 -> 'a1 **)

  let rec iter_op op p a =
    match p with
    | XI p0 -> op a (iter_op op p0 (op a a))
    | XO p0 -> iter_op op p0 (op a a)
    | XH -> a

  (** val to_nat : positive -> nat **)

  let to_nat x =
    iter_op Coq__1.add x (S O)

  (** val of_succ_nat : nat -> positive **)

  let rec of_succ_nat = function
  | O -> XH
  | S x -> succ (of_succ_nat x)

  (** val to_little_uint : positive -> uint **)

  let rec to_little_uint = function
  | XI p0 -> Little.succ_double (to_little_uint p0)
  | XO p0 -> Little.double (to_little_uint p0)
  | XH -> D1 Nil

  (** val to_uint : positive -> uint **)

  let to_uint p =
    rev (to_little_uint p)
 end

module N =
 struct
  (** val of_nat : nat -> n **)

  let of_nat = function
  | O -> N0
  | S n' -> Npos (Coq_Pos.of_succ_nat n')
 end

(** val zero : char **)

let zero = '\000'

(** val one : char **)

let one = '\001'

(** val shift : bool -> char -> char **)

let shift = fun b c -> Char.chr (((Char.code c) lsl 1) land 255 + if b then 1 else 0)

(** val ascii_of_pos : positive -> char **)

let ascii_of_pos =
  let rec loop n0 p =
    match n0 with
    | O -> zero
    | S n' ->
      (match p with
       | XI p' -> shift true (loop n' p')
       | XO p' -> shift false (loop n' p')
       | XH -> one)
  in loop (S (S (S (S (S (S (S (S O))))))))

(** val ascii_of_N : n -> char **)

let ascii_of_N = function
| N0 -> zero
| Npos p -> ascii_of_pos p

(** val ascii_of_nat : nat -> char **)

let ascii_of_nat a =
  ascii_of_N (N.of_nat a)

(** val fold_left : ('a1 -> 'a2 -> 'a1) -> 'a2 list -> 'a1 -> 'a1 **)

let rec fold_left f l a0 =
  match l with
  | [] -> a0
  | b :: t0 -> fold_left f t0 (f a0 b)

(** val existsb : ('a1 -> bool) -> 'a1 list -> bool **)

let rec existsb f = function
| [] -> false
| a :: l0 -> (||) (f a) (existsb f l0)

module Z =
 struct
  (** val double : z -> z **)

  let double = function
  | Z0 -> Z0
  | Zpos p -> Zpos (XO p)
  | Zneg p -> Zneg (XO p)

  (** val succ_double : z -> z **)

  let succ_double = function
  | Z0 -> Zpos XH
  | Zpos p -> Zpos (XI p)
  | Zneg p -> Zneg (Coq_Pos.pred_double p)

  (** val pred_double : z -> z **)

  let pred_double = function
  | Z0 -> Zneg XH
  | Zpos p -> Zpos (Coq_Pos.pred_double p)
  | Zneg p -> Zneg (XI p)

  (** val pos_sub : positive -> positive -> z **)

  let rec pos_sub x y =
    match x with
    | XI p ->
      (match y with
       | XI q0 -> double (pos_sub p q0)
       | XO q0 -> succ_double (pos_sub p q0)
       | XH -> Zpos (XO p))
    | XO p ->
      (match y with
       | XI q0 -> pred_double (pos_sub p q0)
       | XO q0 -> double (pos_sub p q0)
       | XH -> Zpos (Coq_Pos.pred_double p))
    | XH ->
      (match y with
       | XI q0 -> Zneg (XO q0)
       | XO q0 -> Zneg (Coq_Pos.pred_double q0)
       | XH -> Z0)

  (** val add : z -> z -> z **)

  let add x y =
    match x with
    | Z0 -> y
    | Zpos x' ->
      (match y with
       | Z0 -> x
       | Zpos y' -> Zpos (Coq_Pos.add x' y')
       | Zneg y' -> pos_sub x' y')
    | Zneg x' ->
      (match y with
       | Z0 -> x
       | Zpos y' -> pos_sub y' x'
       | Zneg y' -> Zneg (Coq_Pos.add x' y'))

  (** val opp : z -> z **)

  let opp = function
  | Z0 -> Z0
  | Zpos x0 -> Zneg x0
  | Zneg x0 -> Zpos x0

  (** val sub : z -> z -> z **)

  let sub m n0 =
    add m (opp n0)

  (** val mul : z -> z -> z **)

  let mul x y =
    match x with
    | Z0 -> Z0
    | Zpos x' ->
      (match y with
       | Z0 -> Z0
       | Zpos y' -> Zpos (Coq_Pos.mul x' y')
       | Zneg y' -> Zneg (Coq_Pos.mul x' y'))
    | Zneg x' ->
      (match y with
       | Z0 -> Z0
       | Zpos y' -> Zneg (Coq_Pos.mul x' y')
       | Zneg y' -> Zpos (Coq_Pos.mul x' y'))

  (** val pow_pos : z -> positive -> z **)

  let pow_pos z0 =
    Coq_Pos.iter (mul z0) (Zpos XH)

  (** val pow : z -> z -> z **)

  let pow x = function
  | Z0 -> Zpos XH
  | Zpos p -> pow_pos x p
  | Zneg _ -> Z0

  (** val compare : z -> z -> comparison **)

  let compare x y =
    match x with
    | Z0 -> (match y with
             | Z0 -> Eq
             | Zpos _ -> Lt
             | Zneg _ -> Gt)
    | Zpos x' -> (match y with
                  | Zpos y' -> Coq_Pos.compare x' y'
                  | _ -> Gt)
    | Zneg x' ->
      (match y with
       | Zneg y' -> compOpp (Coq_Pos.compare x' y')
       | _ -> Lt)

  (** val sgn : z -> z **)

  let sgn = function
  | Z0 -> Z0
  | Zpos _ -> Zpos XH
  | Zneg _ -> Zneg XH

  (** val leb : z -> z -> bool **)

  let leb x y =
    match compare x y with
    | Gt -> false
    | _ -> true

  (** val ltb : z -> z -> bool **)

  let ltb x y =
    match compare x y with
    | Lt -> true
    | _ -> false

  (** val eqb : z -> z -> bool **)

  let eqb x y =
    match x with
    | Z0 -> (match y with
             | Z0 -> true
             | _ -> false)
    | Zpos p -> (match y with
                 | Zpos q0 -> Coq_Pos.eqb p q0
                 | _ -> false)
    | Zneg p -> (match y with
                 | Zneg q0 -> Coq_Pos.eqb p q0
                 | _ -> false)

  (** val abs : z -> z **)

  let abs = function
  | Zneg p -> Zpos p
  | x -> x

  (** val to_nat : z -> nat **)

  let to_nat = function
  | Zpos p -> Coq_Pos.to_nat p
  | _ -> O

  (** val to_pos : z -> positive **)

  let to_pos = function
  | Zpos p -> p
  | _ -> XH

  (** val to_int : z -> signed_int **)

  let to_int = function
  | Z0 -> Pos (D0 Nil)
  | Zpos p -> Pos (Coq_Pos.to_uint p)
  | Zneg p -> Neg (Coq_Pos.to_uint p)

  (** val pos_div_eucl : positive -> z -> z * z **)

  let rec pos_div_eucl a b =
    match a with
    | XI a' ->
      let (q0, r) = pos_div_eucl a' b in
      let r' = add (mul (Zpos (XO XH)) r) (Zpos XH) in
      if ltb r' b
      then ((mul (Zpos (XO XH)) q0), r')
      else ((add (mul (Zpos (XO XH)) q0) (Zpos XH)), (sub r' b))
    | XO a' ->
      let (q0, r) = pos_div_eucl a' b in
      let r' = mul (Zpos (XO XH)) r in
      if ltb r' b
      then ((mul (Zpos (XO XH)) q0), r')
      else ((add (mul (Zpos (XO XH)) q0) (Zpos XH)), (sub r' b))
    | XH -> if leb (Zpos (XO XH)) b then (Z0, (Zpos XH)) else ((Zpos XH), Z0)

  (** val div_eucl : z -> z -> z * z **)

  let div_eucl a b =
    match a with
    | Z0 -> (Z0, Z0)
    | Zpos a' ->
      (match b with
       | Z0 -> (Z0, a)
       | Zpos _ -> pos_div_eucl a' b
       | Zneg b' ->
         let (q0, r) = pos_div_eucl a' (Zpos b') in
         (match r with
          | Z0 -> ((opp q0), Z0)
          | _ -> ((opp (add q0 (Zpos XH))), (add b r))))
    | Zneg a' ->
      (match b with
       | Z0 -> (Z0, a)
       | Zpos _ ->
         let (q0, r) = pos_div_eucl a' b in
         (match r with
          | Z0 -> ((opp q0), Z0)
          | _ -> ((opp (add q0 (Zpos XH))), (sub b r)))
       | Zneg b' -> let (q0, r) = pos_div_eucl a' (Zpos b') in (q0, (opp r)))

  (** val div : z -> z -> z **)

  let div a b =
    let (q0, _) = div_eucl a b in q0

  (** val modulo : z -> z -> z **)

  let modulo a b =
    let (_, r) = div_eucl a b in r

  (** val ggcd : z -> z -> z * (z * z) **)

  let ggcd a b =
    match a with
    | Z0 -> ((abs b), (Z0, (sgn b)))
    | Zpos a0 ->
      (match b with
       | Z0 -> ((abs a), ((sgn a), Z0))
       | Zpos b0 ->
         let (g, p) = Coq_Pos.ggcd a0 b0 in
         let (aa, bb) = p in ((Zpos g), ((Zpos aa), (Zpos bb)))
       | Zneg b0 ->
         let (g, p) = Coq_Pos.ggcd a0 b0 in
         let (aa, bb) = p in ((Zpos g), ((Zpos aa), (Zneg bb))))
    | Zneg a0 ->
      (match b with
       | Z0 -> ((abs a), ((sgn a), Z0))
       | Zpos b0 ->
         let (g, p) = Coq_Pos.ggcd a0 b0 in
         let (aa, bb) = p in ((Zpos g), ((Zneg aa), (Zpos bb)))
       | Zneg b0 ->
         let (g, p) = Coq_Pos.ggcd a0 b0 in
         let (aa, bb) = p in ((Zpos g), ((Zneg aa), (Zneg bb))))
 end

(** val zeq_bool : z -> z -> bool **)

let zeq_bool x y =
  match Z.compare x y with
  | Eq -> true
  | _ -> false

(** val length : string -> nat **)

let rec length s =
  (* If this appears, you're using String internals. Please don't *)
 (fun f0 f1 s ->
    let l = String.length s in
    if l = 0 then f0 () else f1 (String.get s 0) (String.sub s 1 (l-1)))

    (fun _ -> O)
    (fun _ s' -> S (length s'))
    s

type q = { qnum : z; qden : positive }

(** val inject_Z : z -> q **)

let inject_Z x =
  { qnum = x; qden = XH }

(** val qcompare : q -> q -> comparison **)

let qcompare p q0 =
  Z.compare (Z.mul p.qnum (Zpos q0.qden)) (Z.mul q0.qnum (Zpos p.qden))

(** val qeq_bool : q -> q -> bool **)

let qeq_bool x y =
  zeq_bool (Z.mul x.qnum (Zpos y.qden)) (Z.mul y.qnum (Zpos x.qden))

(** val qplus : q -> q -> q **)

let qplus x y =
  { qnum = (Z.add (Z.mul x.qnum (Zpos y.qden)) (Z.mul y.qnum (Zpos x.qden)));
    qden = (Coq_Pos.mul x.qden y.qden) }

(** val qmult : q -> q -> q **)

let qmult x y =
  { qnum = (Z.mul x.qnum y.qnum); qden = (Coq_Pos.mul x.qden y.qden) }

(** val qopp : q -> q **)

let qopp x =
  { qnum = (Z.opp x.qnum); qden = x.qden }

(** val qminus : q -> q -> q **)

let qminus x y =
  qplus x (qopp y)

(** val qinv : q -> q **)

let qinv x =
  match x.qnum with
  | Z0 -> { qnum = Z0; qden = XH }
  | Zpos p -> { qnum = (Zpos x.qden); qden = p }
  | Zneg p -> { qnum = (Zneg x.qden); qden = p }

(** val qdiv : q -> q -> q **)

let qdiv x y =
  qmult x (qinv y)

(** val qred : q -> q **)

let qred q0 =
  let { qnum = q1; qden = q2 } = q0 in
  let (r1, r2) = snd (Z.ggcd q1 (Zpos q2)) in
  { qnum = r1; qden = (Z.to_pos r2) }

type exn =
| ZeroDivisionError
| ValueError
| IndexError
| TypeError
| AttributeError
| AssertionError
| KeyError
| UnboundLocalError
| OverflowError
| NotImplementedErr
| UsageError
| ElectionError
| ElectionProfileError

type 'a res =
| Ok of 'a
| Raise of exn

(** val bind : 'a1 res -> ('a1 -> 'a2 res) -> 'a2 res **)

let bind r f =
  match r with
  | Ok a -> f a
  | Raise e -> Raise e

type operand =
| OInt of z
| OVal of z

(** val operand_raw : operand -> z **)

let operand_raw = function
| OInt n0 -> n0
| OVal r -> r

(** val operand_value : operand -> z res **)

let operand_value = function
| OInt _ -> Raise AttributeError
| OVal r -> Ok r

(** val res_true : bool res -> bool **)

let res_true = function
| Ok a -> a
| Raise _ -> false

type rnd =
| RUp
| RDown
| RNone
| ROther

(** val rnd_eqb : rnd -> rnd -> bool **)

let rnd_eqb a b =
  match a with
  | RUp -> (match b with
            | RUp -> true
            | _ -> false)
  | RDown -> (match b with
              | RDown -> true
              | _ -> false)
  | RNone -> (match b with
              | RNone -> true
              | _ -> false)
  | ROther -> (match b with
               | ROther -> true
               | _ -> false)

(** val rnd_in : rnd -> rnd list -> bool **)

let rnd_in a l =
  existsb (rnd_eqb a) l

(** val pydiv : z -> z -> z res **)

let pydiv a b =
  if Z.eqb b Z0 then Raise ZeroDivisionError else Ok (Z.div a b)

(** val pymod : z -> z -> z res **)

let pymod a b =
  if Z.eqb b Z0 then Raise ZeroDivisionError else Ok (Z.modulo a b)

(** val pydivmod : z -> z -> (z * z) res **)

let pydivmod a b =
  if Z.eqb b Z0
  then Raise ZeroDivisionError
  else Ok ((Z.div a b), (Z.modulo a b))

(** val truthy : z -> bool **)

let truthy z0 =
  negb (Z.eqb z0 Z0)

(** val py_min_by : ('a1 -> 'a1 -> bool) -> 'a1 list -> 'a1 res **)

let py_min_by lt = function
| [] -> Raise ValueError
| x :: t0 -> Ok (fold_left (fun m y -> if lt y m then y else m) t0 x)

type fixed_cls = { f_precision : z; f_display : z; f_scale : z; f_scaled : 
                   z; f_scaledd : z; f_scaledr : z }

type guarded_cls = { g_precision : z; g_guard : z; g_display : z;
                     g_scale : z; g_scalep : z; g_scaleg : z; g_scaled : 
                     z; g_scaledd : z; g_scaledr : z; g_scaledg : z;
                     g_geps : z }

type fmt_args =
| Fmt2 of z * z
| Fmt3 of z * z * z
| FmtInt of z
| FmtNeg of fmt_args

module NilEmpty =
 struct
  (** val string_of_uint : uint -> string **)

  let rec string_of_uint = function
  | Nil -> ""
  | D0 d0 ->
    (* If this appears, you're using String internals. Please don't *)
  (fun (c, s) -> String.make 1 c ^ s)

      ('0', (string_of_uint d0))
  | D1 d0 ->
    (* If this appears, you're using String internals. Please don't *)
  (fun (c, s) -> String.make 1 c ^ s)

      ('1', (string_of_uint d0))
  | D2 d0 ->
    (* If this appears, you're using String internals. Please don't *)
  (fun (c, s) -> String.make 1 c ^ s)

      ('2', (string_of_uint d0))
  | D3 d0 ->
    (* If this appears, you're using String internals. Please don't *)
  (fun (c, s) -> String.make 1 c ^ s)

      ('3', (string_of_uint d0))
  | D4 d0 ->
    (* If this appears, you're using String internals. Please don't *)
  (fun (c, s) -> String.make 1 c ^ s)

      ('4', (string_of_uint d0))
  | D5 d0 ->
    (* If this appears, you're using String internals. Please don't *)
  (fun (c, s) -> String.make 1 c ^ s)

      ('5', (string_of_uint d0))
  | D6 d0 ->
    (* If this appears, you're using String internals. Please don't *)
  (fun (c, s) -> String.make 1 c ^ s)

      ('6', (string_of_uint d0))
  | D7 d0 ->
    (* If this appears, you're using String internals. Please don't *)
  (fun (c, s) -> String.make 1 c ^ s)

      ('7', (string_of_uint d0))
  | D8 d0 ->
    (* If this appears, you're using String internals. Please don't *)
  (fun (c, s) -> String.make 1 c ^ s)

      ('8', (string_of_uint d0))
  | D9 d0 ->
    (* If this appears, you're using String internals. Please don't *)
  (fun (c, s) -> String.make 1 c ^ s)

      ('9', (string_of_uint d0))
 end

module NilZero =
 struct
  (** val string_of_uint : uint -> string **)

  let string_of_uint d = match d with
  | Nil -> "0"
  | _ -> NilEmpty.string_of_uint d

  (** val string_of_int : signed_int -> string **)

  let string_of_int = function
  | Pos d0 -> string_of_uint d0
  | Neg d0 ->
    (* If this appears, you're using String internals. Please don't *)
  (fun (c, s) -> String.make 1 c ^ s)

      ('-', (string_of_uint d0))
 end

(** val string_of_Z : z -> string **)

let string_of_Z z0 =
  NilZero.string_of_int (Z.to_int z0)

(** val zeros : nat -> string **)

let rec zeros = function
| O -> ""
| S k ->
  (* If this appears, you're using String internals. Please don't *)
  (fun (c, s) -> String.make 1 c ^ s)

    ('0', (zeros k))

(** val pad0 : z -> z -> string **)

let pad0 width z0 =
  let w = Z.to_nat width in
  if Z.ltb z0 Z0
  then let d = string_of_Z (Z.opp z0) in
       (* If this appears, you're using String internals. Please don't *)
  (fun (c, s) -> String.make 1 c ^ s)

       ('-', ((^) (zeros (sub (sub w (S O)) (length d))) d))
  else let d = string_of_Z z0 in (^) (zeros (sub w (length d))) d

(** val render_fmt : z -> z -> fmt_args -> string **)

let rec render_fmt w1 w2 = function
| Fmt2 (a, b) -> (^) (string_of_Z a) ((^) "." (pad0 w1 b))
| Fmt3 (a, b, c) ->
  (^) (string_of_Z a) ((^) "." ((^) (pad0 w1 b) ((^) "_" (pad0 w2 c))))
| FmtInt a -> string_of_Z a
| FmtNeg g ->
  (* If this appears, you're using String internals. Please don't *)
  (fun (c, s) -> String.make 1 c ^ s)

    ('-', (render_fmt w1 w2 g))

(** val qfloor : q -> z **)

let qfloor x =
  let { qnum = n0; qden = d } = x in Z.div n0 (Zpos d)

(** val init_r : fixed_cls -> operand -> bool -> z res **)

let init_r st arg = function
| true -> let self_1 = operand_raw arg in Ok self_1
| false ->
  (match arg with
   | OInt arg_i_2 -> let self_4 = Z.mul arg_i_2 st.f_scale in Ok self_4
   | OVal arg_o_3 -> Ok arg_o_3)

(** val init : fixed_cls -> operand -> bool -> z **)

let init st arg setval =
  match init_r st arg setval with
  | Ok v -> v
  | Raise _ -> Z0

(** val dunder_add : fixed_cls -> z -> operand -> z res **)

let dunder_add st self other =
  let v_1 = init st other false in let v_2 = Z.add v_1 self in Ok v_2

(** val dunder_sub : fixed_cls -> z -> operand -> z res **)

let dunder_sub st self other =
  let v_1 = init st other false in let v_2 = Z.sub self v_1 in Ok v_2

(** val dunder_neg : fixed_cls -> z -> z res **)

let dunder_neg st self =
  let v_1 = init st (OVal self) false in let v_2 = Z.opp v_1 in Ok v_2

(** val dunder_pos : fixed_cls -> z -> z res **)

let dunder_pos st self =
  Ok (init st (OVal self) false)

(** val dunder_bool : fixed_cls -> z -> bool res **)

let dunder_bool _ self =
  Ok (negb (Z.eqb self Z0))

(** val dunder_abs : fixed_cls -> z -> z res **)

let dunder_abs st self =
  let v_1 = init st (OVal self) false in let v_2 = Z.abs v_1 in Ok v_2

(** val dunder_mul : fixed_cls -> z -> operand -> z res **)

let dunder_mul st self other =
  let v_1 = init st (OVal self) false in
  (match other with
   | OInt other_i_2 -> let v_4 = Z.mul v_1 other_i_2 in Ok v_4
   | OVal other_o_3 ->
     let v_5 = Z.mul v_1 other_o_3 in
     bind (pydiv v_5 st.f_scale) (fun v_6 -> Ok v_6))

(** val dunder_floordiv : fixed_cls -> z -> operand -> z res **)

let dunder_floordiv st self other =
  let v_1 = init st (OVal self) false in
  (match other with
   | OInt other_i_2 -> bind (pydiv v_1 other_i_2) (fun v_4 -> Ok v_4)
   | OVal other_o_3 ->
     let v_5 = Z.mul v_1 st.f_scale in
     bind (pydiv v_5 other_o_3) (fun v_6 -> Ok v_6))

(** val mul0 : fixed_cls -> operand -> operand -> rnd -> z res **)

let mul0 st arg1 arg2 round =
  let v1_1 = init st arg1 false in
  let v2_2 = init st arg2 false in
  if negb (rnd_in round (RDown :: (RUp :: [])))
  then Raise ValueError
  else bind (pydivmod (Z.mul v1_1 v2_2) st.f_scale) (fun x ->
         let (v1_3, rem_4) = x in
         if (&&) (truthy rem_4) (rnd_eqb round RUp)
         then let v1_5 = Z.add v1_3 (Zpos XH) in Ok v1_5
         else Ok v1_3)

(** val div0 : fixed_cls -> operand -> operand -> rnd -> z res **)

let div0 st arg1 arg2 round =
  let v1_1 = init st arg1 false in
  let v2_2 = init st arg2 false in
  if negb (rnd_in round (RDown :: (RUp :: [])))
  then Raise ValueError
  else bind (pydivmod (Z.mul v1_1 st.f_scale) v2_2) (fun x ->
         let (v1_3, rem_4) = x in
         if (&&) (truthy rem_4) (rnd_eqb round RUp)
         then let v1_5 = Z.add v1_3 (Zpos XH) in Ok v1_5
         else Ok v1_3)

(** val muldiv :
    fixed_cls -> operand -> operand -> operand -> rnd -> z res **)

let muldiv st arg1 arg2 arg3 round =
  let v1_1 = init st arg1 false in
  let v2_2 = init st arg2 false in
  let v3_3 = init st arg3 false in
  bind (pydivmod (Z.mul v1_1 v2_2) v3_3) (fun x ->
    let (v1_4, rem_5) = x in
    if negb (rnd_in round (RDown :: (RUp :: [])))
    then Raise ValueError
    else if (&&) (truthy rem_5) (rnd_eqb round RUp)
         then let v1_6 = Z.add v1_4 (Zpos XH) in Ok v1_6
         else Ok v1_4)

(** val dunder_eq : fixed_cls -> z -> operand -> bool res **)

let dunder_eq _ self other =
  bind (operand_value other) (fun other_v_1 -> Ok (Z.eqb self other_v_1))

(** val dunder_ne : fixed_cls -> z -> operand -> bool res **)

let dunder_ne _ self other =
  bind (operand_value other) (fun other_v_1 -> Ok
    (negb (Z.eqb self other_v_1)))

(** val dunder_lt : fixed_cls -> z -> operand -> bool res **)

let dunder_lt _ self other =
  bind (operand_value other) (fun other_v_1 -> Ok (Z.ltb self other_v_1))

(** val dunder_le : fixed_cls -> z -> operand -> bool res **)

let dunder_le _ self other =
  bind (operand_value other) (fun other_v_1 -> Ok (Z.leb self other_v_1))

(** val dunder_gt : fixed_cls -> z -> operand -> bool res **)

let dunder_gt _ self other =
  bind (operand_value other) (fun other_v_1 -> Ok (Z.ltb other_v_1 self))

(** val dunder_ge : fixed_cls -> z -> operand -> bool res **)

let dunder_ge _ self other =
  bind (operand_value other) (fun other_v_1 -> Ok (Z.leb other_v_1 self))

(** val min : fixed_cls -> z list -> z res **)

let min st vals =
  bind (py_min_by (fun a b -> res_true (dunder_lt st a (OVal b))) vals)
    (fun m_1 -> Ok m_1)

(** val dunder_str : fixed_cls -> z -> fmt_args res **)

let dunder_str st self =
  if Z.eqb st.f_precision Z0
  then Ok (FmtInt self)
  else if Z.ltb st.f_display st.f_precision
       then let v_2 = Z.add self st.f_scaledr in
            bind (pydiv v_2 st.f_scaledd) (fun v_3 ->
              if Z.ltb v_3 Z0
              then bind (pydiv (Z.opp v_3) st.f_scaled) (fun q_4 ->
                     bind (pymod (Z.opp v_3) st.f_scaled) (fun r_5 -> Ok
                       (FmtNeg (Fmt2 (q_4, r_5)))))
              else bind (pydiv v_3 st.f_scaled) (fun q_6 ->
                     bind (pymod v_3 st.f_scaled) (fun r_7 -> Ok (Fmt2 (q_6,
                       r_7)))))
       else if Z.ltb self Z0
            then bind (pydiv (Z.opp self) st.f_scaled) (fun q_8 ->
                   bind (pymod (Z.opp self) st.f_scaled) (fun r_9 -> Ok
                     (FmtNeg (Fmt2 (q_8, r_9)))))
            else bind (pydiv self st.f_scaled) (fun q_10 ->
                   bind (pymod self st.f_scaled) (fun r_11 -> Ok (Fmt2 (q_10,
                     r_11))))

(** val dunder_truediv : fixed_cls -> z -> operand -> z res **)

let dunder_truediv =
  dunder_floordiv

(** val init_r0 : guarded_cls -> operand -> bool -> z res **)

let init_r0 st arg = function
| true -> let self_1 = operand_raw arg in Ok self_1
| false ->
  (match arg with
   | OInt arg_i_2 -> let self_4 = Z.mul arg_i_2 st.g_scale in Ok self_4
   | OVal arg_o_3 -> Ok arg_o_3)

(** val init0 : guarded_cls -> operand -> bool -> z **)

let init0 st arg setval =
  match init_r0 st arg setval with
  | Ok v -> v
  | Raise _ -> Z0

(** val dunder_add0 : guarded_cls -> z -> operand -> z res **)

let dunder_add0 st self other =
  let v_1 = init0 st other false in Ok (init0 st (OInt (Z.add self v_1)) true)

(** val dunder_sub0 : guarded_cls -> z -> operand -> z res **)

let dunder_sub0 st self other =
  let v_1 = init0 st other false in Ok (init0 st (OInt (Z.sub self v_1)) true)

(** val dunder_neg0 : guarded_cls -> z -> z res **)

let dunder_neg0 st self =
  Ok (init0 st (OInt (Z.opp self)) true)

(** val dunder_pos0 : guarded_cls -> z -> z res **)

let dunder_pos0 st self =
  Ok (init0 st (OInt self) true)

(** val dunder_bool0 : guarded_cls -> z -> bool res **)

let dunder_bool0 _ self =
  Ok (negb (Z.eqb self Z0))

(** val dunder_abs0 : guarded_cls -> z -> z res **)

let dunder_abs0 st self =
  Ok (init0 st (OInt (Z.abs self)) true)

(** val dunder_mul0 : guarded_cls -> z -> operand -> z res **)

let dunder_mul0 st self = function
| OInt other_i_1 -> Ok (init0 st (OInt (Z.mul self other_i_1)) true)
| OVal other_o_2 ->
  bind (pydiv (Z.mul self other_o_2) st.g_scale) (fun q_3 -> Ok
    (init0 st (OInt q_3) true))

(** val dunder_floordiv0 : guarded_cls -> z -> operand -> z res **)

let dunder_floordiv0 st self = function
| OInt other_i_1 ->
  bind (pydiv self other_i_1) (fun q_3 -> Ok (init0 st (OInt q_3) true))
| OVal other_o_2 ->
  bind (pydiv (Z.mul self st.g_scale) other_o_2) (fun q_4 -> Ok
    (init0 st (OInt q_4) true))

(** val mul1 : guarded_cls -> operand -> operand -> rnd -> z res **)

let mul1 st arg1 arg2 round =
  let v1_1 = init0 st arg1 false in
  let v2_2 = init0 st arg2 false in
  if truthy st.g_guard
  then bind (pydiv (Z.mul v1_1 v2_2) st.g_scale) (fun q_3 -> Ok q_3)
  else bind (pydivmod (Z.mul v1_1 v2_2) st.g_scale) (fun x ->
         let (v1_5, rem_6) = x in
         if (&&) (truthy rem_6) (rnd_eqb round RUp)
         then let v1_7 = Z.add v1_5 (Zpos XH) in Ok v1_7
         else Ok v1_5)

(** val div1 : guarded_cls -> operand -> operand -> rnd -> z res **)

let div1 st arg1 arg2 round =
  let v1_1 = init0 st arg1 false in
  let v2_2 = init0 st arg2 false in
  if truthy st.g_guard
  then bind (pydiv (Z.mul v1_1 st.g_scale) v2_2) (fun q_3 -> Ok q_3)
  else bind (pydivmod (Z.mul v1_1 st.g_scale) v2_2) (fun x ->
         let (v1_5, rem_6) = x in
         if (&&) (truthy rem_6) (rnd_eqb round RUp)
         then let v1_7 = Z.add v1_5 (Zpos XH) in Ok v1_7
         else Ok v1_5)

(** val muldiv0 :
    guarded_cls -> operand -> operand -> operand -> rnd -> z res **)

let muldiv0 st arg1 arg2 arg3 round =
  let v1_1 = init0 st arg1 false in
  let v2_2 = init0 st arg2 false in
  let v3_3 = init0 st arg3 false in
  if truthy st.g_guard
  then bind (pydiv (Z.mul v1_1 v2_2) v3_3) (fun q_4 -> Ok q_4)
  else bind (pydivmod (Z.mul v1_1 v2_2) v3_3) (fun x ->
         let (v1_6, rem_7) = x in
         if (&&) (truthy rem_7) (rnd_eqb round RUp)
         then let v1_8 = Z.add v1_6 (Zpos XH) in Ok v1_8
         else Ok v1_6)

(** val dunder_cmp : guarded_cls -> z -> operand -> z res **)

let dunder_cmp st self other =
  bind (operand_value other) (fun other_v_1 ->
    let gdiff_2 = Z.abs (Z.sub self other_v_1) in
    if Z.ltb gdiff_2 st.g_geps
    then Ok Z0
    else bind (operand_value other) (fun other_v_3 ->
           if Z.ltb other_v_3 self then Ok (Zpos XH) else Ok (Z.opp (Zpos XH))))

(** val dunder_eq0 : guarded_cls -> z -> operand -> bool res **)

let dunder_eq0 st self other =
  bind (dunder_cmp st self other) (fun c_1 -> Ok (Z.eqb c_1 Z0))

(** val dunder_ne0 : guarded_cls -> z -> operand -> bool res **)

let dunder_ne0 st self other =
  bind (dunder_cmp st self other) (fun c_1 -> Ok (negb (Z.eqb c_1 Z0)))

(** val dunder_lt0 : guarded_cls -> z -> operand -> bool res **)

let dunder_lt0 st self other =
  bind (dunder_cmp st self other) (fun c_1 -> Ok (Z.ltb c_1 Z0))

(** val dunder_le0 : guarded_cls -> z -> operand -> bool res **)

let dunder_le0 st self other =
  bind (dunder_cmp st self other) (fun c_1 -> Ok (Z.leb c_1 Z0))

(** val dunder_gt0 : guarded_cls -> z -> operand -> bool res **)

let dunder_gt0 st self other =
  bind (dunder_cmp st self other) (fun c_1 -> Ok (Z.ltb Z0 c_1))

(** val dunder_ge0 : guarded_cls -> z -> operand -> bool res **)

let dunder_ge0 st self other =
  bind (dunder_cmp st self other) (fun c_1 -> Ok (Z.leb Z0 c_1))

(** val min0 : guarded_cls -> z list -> z res **)

let min0 _ = function
| [] -> Raise IndexError
| x0 :: rest ->
  Ok
    (fold_left (fun acc val0 -> if Z.ltb val0 acc then val0 else acc) rest x0)

(** val dunder_str0 : guarded_cls -> z -> fmt_args res **)

let dunder_str0 st self =
  bind (pydiv (Z.add self st.g_scaledr) st.g_scaledd) (fun q_2 ->
    let neg_4 = Z.ltb q_2 Z0 in
    if neg_4
    then let gv_5 = Z.opp q_2 in
         if Z.leb st.g_display st.g_precision
         then bind (pydiv gv_5 st.g_scaled) (fun q_6 ->
                bind (pymod gv_5 st.g_scaled) (fun r_7 ->
                  let s_8 = Fmt2 (q_6, r_7) in
                  Ok (if neg_4 then FmtNeg s_8 else s_8)))
         else bind (pymod gv_5 st.g_scaled) (fun r_9 ->
                bind (pydiv gv_5 st.g_scaled) (fun q_11 ->
                  bind (pydiv r_9 st.g_scaledg) (fun q_12 ->
                    bind (pymod r_9 st.g_scaledg) (fun r_13 ->
                      let s_14 = Fmt3 (q_11, q_12, r_13) in
                      Ok (if neg_4 then FmtNeg s_14 else s_14)))))
    else if Z.leb st.g_display st.g_precision
         then bind (pydiv q_2 st.g_scaled) (fun q_15 ->
                bind (pymod q_2 st.g_scaled) (fun r_16 ->
                  let s_17 = Fmt2 (q_15, r_16) in
                  Ok (if neg_4 then FmtNeg s_17 else s_17)))
         else bind (pymod q_2 st.g_scaled) (fun r_18 ->
                bind (pydiv q_2 st.g_scaled) (fun q_20 ->
                  bind (pydiv r_18 st.g_scaledg) (fun q_21 ->
                    bind (pymod r_18 st.g_scaledg) (fun r_22 ->
                      let s_23 = Fmt3 (q_20, q_21, r_22) in
                      Ok (if neg_4 then FmtNeg s_23 else s_23))))))

(** val dunder_hash : guarded_cls -> z -> z res **)

let dunder_hash _ _ =
  Raise NotImplementedErr

(** val dunder_truediv0 : guarded_cls -> z -> operand -> z res **)

let dunder_truediv0 =
  dunder_floordiv0

(** val unres : 'a1 -> 'a1 res -> 'a1 **)

let unres d = function
| Ok a -> a
| Raise _ -> d

type arith = { of_int : (z -> __); add0 : (__ -> __ -> __);
               sub0 : (__ -> __ -> __); mulv : (__ -> __ -> __);
               divv : (__ -> __ -> __ res); floordivv : (__ -> __ -> __ res);
               kmul : (__ -> __ -> rnd -> __);
               kdiv : (__ -> __ -> rnd -> __ res);
               kmuldiv : (__ -> __ -> __ -> rnd -> __ res);
               eqv : (__ -> __ -> bool); ltv : (__ -> __ -> bool);
               lev : (__ -> __ -> bool); gtv : (__ -> __ -> bool);
               gev : (__ -> __ -> bool); truth : (__ -> bool);
               vmin : (__ list -> __ res); epsilon : __; exact : bool;
               aname : string; ainfo : string; str : (__ -> string);
               raw_repr : (__ -> string);
               areport : (string -> string -> string) }

type t = __

(** val nev : arith -> t -> t -> bool **)

let nev a a0 b =
  negb (a.eqv a0 b)

(** val fixed_display : z -> z -> z **)

let fixed_display p d0 =
  if (||) (Z.ltb d0 Z0) (Z.ltb p d0) then p else d0

(** val mk_fixed_cls : z -> z -> fixed_cls **)

let mk_fixed_cls p d0 =
  let d = fixed_display p d0 in
  { f_precision = p; f_display = d; f_scale =
  (Z.pow (Zpos (XO (XI (XO XH)))) p); f_scaled =
  (Z.pow (Zpos (XO (XI (XO XH)))) d); f_scaledd =
  (Z.pow (Zpos (XO (XI (XO XH)))) (Z.sub p d)); f_scaledr =
  (Z.div (Z.pow (Zpos (XO (XI (XO XH)))) (Z.sub p d)) (Zpos (XO XH))) }

(** val fixed_str : fixed_cls -> z -> string **)

let fixed_str st v =
  match dunder_str st v with
  | Ok f -> render_fmt st.f_display Z0 f
  | Raise _ -> "<exception>"

(** val fixed_info : z -> z -> string **)

let fixed_info p d =
  if Z.eqb p Z0
  then "integer arithmetic"
  else if negb (Z.eqb d p)
       then (^) "fixed-point decimal arithmetic ("
              ((^) (string_of_Z p)
                ((^) " places, " ((^) (string_of_Z d) " displayed)")))
       else (^) "fixed-point decimal arithmetic ("
              ((^) (string_of_Z p) " places)")

(** val fixed : z -> z -> arith **)

let fixed p d =
  let st = mk_fixed_cls p d in
  { of_int = (fun n0 -> Obj.magic init st (OInt n0) false); add0 =
  (fun a b ->
  unres (Obj.magic Z0) (Obj.magic dunder_add st a (OVal (Obj.magic b))));
  sub0 = (fun a b ->
  unres (Obj.magic Z0) (Obj.magic dunder_sub st a (OVal (Obj.magic b))));
  mulv = (fun a b ->
  unres (Obj.magic Z0) (Obj.magic dunder_mul st a (OVal (Obj.magic b))));
  divv = (fun a b -> Obj.magic dunder_truediv st a (OVal (Obj.magic b)));
  floordivv = (fun a b ->
  Obj.magic dunder_floordiv st a (OVal (Obj.magic b))); kmul = (fun a b r ->
  unres (Obj.magic Z0)
    (Obj.magic mul0 st (OVal (Obj.magic a)) (OVal (Obj.magic b)) r)); kdiv =
  (fun a b r ->
  Obj.magic div0 st (OVal (Obj.magic a)) (OVal (Obj.magic b)) r); kmuldiv =
  (fun a b c r ->
  Obj.magic muldiv st (OVal (Obj.magic a)) (OVal (Obj.magic b)) (OVal
    (Obj.magic c)) r); eqv = (fun a b ->
  res_true (dunder_eq st (Obj.magic a) (OVal (Obj.magic b)))); ltv =
  (fun a b -> res_true (dunder_lt st (Obj.magic a) (OVal (Obj.magic b))));
  lev = (fun a b ->
  res_true (dunder_le st (Obj.magic a) (OVal (Obj.magic b)))); gtv =
  (fun a b -> res_true (dunder_gt st (Obj.magic a) (OVal (Obj.magic b))));
  gev = (fun a b ->
  res_true (dunder_ge st (Obj.magic a) (OVal (Obj.magic b)))); truth =
  (fun a -> res_true (dunder_bool st (Obj.magic a))); vmin =
  (Obj.magic min st); epsilon = (Obj.magic (Zpos XH)); exact = false; aname =
  (if Z.eqb p Z0 then "integer" else "fixed"); ainfo =
  (fixed_info p (fixed_display p d)); str = (Obj.magic fixed_str st);
  raw_repr = (Obj.magic string_of_Z); areport = (fun _ _ -> "") }

(** val mk_guarded_cls : z -> z -> z -> z -> guarded_cls **)

let mk_guarded_cls p g d0 stale =
  let d = if Z.ltb (Z.add p g) d0 then Z.add p g else d0 in
  let geps0 = Z.div (Z.pow (Zpos (XO (XI (XO XH)))) g) (Zpos (XO XH)) in
  { g_precision = p; g_guard = g; g_display = d; g_scale =
  (Z.pow (Zpos (XO (XI (XO XH)))) (Z.add p g)); g_scalep =
  (Z.pow (Zpos (XO (XI (XO XH)))) p); g_scaleg =
  (Z.pow (Zpos (XO (XI (XO XH)))) g); g_scaled =
  (Z.pow (Zpos (XO (XI (XO XH)))) d); g_scaledd =
  (Z.pow (Zpos (XO (XI (XO XH)))) (Z.sub (Z.add g p) d)); g_scaledr =
  (Z.div (Z.pow (Zpos (XO (XI (XO XH)))) (Z.sub (Z.add g p) d)) (Zpos (XO
    XH))); g_scaledg =
  (if Z.ltb p d then Z.pow (Zpos (XO (XI (XO XH)))) (Z.sub d p) else stale);
  g_geps = (if Z.eqb geps0 Z0 then Zpos XH else geps0) }

(** val guarded_str : guarded_cls -> z -> string **)

let guarded_str st v =
  match dunder_str0 st v with
  | Ok f ->
    if Z.leb st.g_display st.g_precision
    then render_fmt st.g_display Z0 f
    else render_fmt st.g_precision (Z.sub st.g_display st.g_precision) f
  | Raise _ -> "<exception>"

(** val guarded_info : z -> z -> z -> string **)

let guarded_info p g d =
  if negb (Z.eqb d p)
  then (^) "guarded-precision fixed-point decimal arithmetic ("
         ((^) (string_of_Z p)
           ((^) "+"
             ((^) (string_of_Z g)
               ((^) " places; " ((^) (string_of_Z d) " displayed)")))))
  else (^) "guarded-precision fixed-point decimal arithmetic ("
         ((^) (string_of_Z p) ((^) "+" ((^) (string_of_Z g) " places)")))

(** val tab : string **)

let tab =
  (* If this appears, you're using String internals. Please don't *)
  (fun (c, s) -> String.make 1 c ^ s)

    ((ascii_of_nat (S (S (S (S (S (S (S (S (S O)))))))))), "")

(** val nl : string **)

let nl =
  (* If this appears, you're using String internals. Please don't *)
  (fun (c, s) -> String.make 1 c ^ s)

    ((ascii_of_nat (S (S (S (S (S (S (S (S (S (S O))))))))))), "")

(** val guarded_report : guarded_cls -> string -> string -> string **)

let guarded_report st maxd mind =
  (^) tab
    ((^) "maxDiff: "
      ((^) maxd
        ((^) "  (s/b << geps)"
          ((^) nl
            ((^) tab
              ((^) "geps:    "
                ((^) (string_of_Z st.g_geps)
                  ((^) nl
                    ((^) tab
                      ((^) "minDiff: "
                        ((^) mind
                          ((^) "  (s/b >> geps)"
                            ((^) nl
                              ((^) tab
                                ((^) "guard:   "
                                  ((^) (string_of_Z st.g_scaleg)
                                    ((^) nl
                                      ((^) tab
                                        ((^) "prec:    "
                                          ((^) (string_of_Z st.g_scale)
                                            ((^) nl nl)))))))))))))))))))))

(** val guarded : z -> z -> z -> z -> arith **)

let guarded p g d stale =
  let st = mk_guarded_cls p g d stale in
  { of_int = (fun n0 -> Obj.magic init0 st (OInt n0) false); add0 =
  (fun a b ->
  unres (Obj.magic Z0) (Obj.magic dunder_add0 st a (OVal (Obj.magic b))));
  sub0 = (fun a b ->
  unres (Obj.magic Z0) (Obj.magic dunder_sub0 st a (OVal (Obj.magic b))));
  mulv = (fun a b ->
  unres (Obj.magic Z0) (Obj.magic dunder_mul0 st a (OVal (Obj.magic b))));
  divv = (fun a b -> Obj.magic dunder_truediv0 st a (OVal (Obj.magic b)));
  floordivv = (fun a b ->
  Obj.magic dunder_floordiv0 st a (OVal (Obj.magic b))); kmul = (fun a b r ->
  unres (Obj.magic Z0)
    (Obj.magic mul1 st (OVal (Obj.magic a)) (OVal (Obj.magic b)) r)); kdiv =
  (fun a b r ->
  Obj.magic div1 st (OVal (Obj.magic a)) (OVal (Obj.magic b)) r); kmuldiv =
  (fun a b c r ->
  Obj.magic muldiv0 st (OVal (Obj.magic a)) (OVal (Obj.magic b)) (OVal
    (Obj.magic c)) r); eqv = (fun a b ->
  res_true (dunder_eq0 st (Obj.magic a) (OVal (Obj.magic b)))); ltv =
  (fun a b -> res_true (dunder_lt0 st (Obj.magic a) (OVal (Obj.magic b))));
  lev = (fun a b ->
  res_true (dunder_le0 st (Obj.magic a) (OVal (Obj.magic b)))); gtv =
  (fun a b -> res_true (dunder_gt0 st (Obj.magic a) (OVal (Obj.magic b))));
  gev = (fun a b ->
  res_true (dunder_ge0 st (Obj.magic a) (OVal (Obj.magic b)))); truth =
  (fun a -> res_true (dunder_bool0 st (Obj.magic a))); vmin =
  (Obj.magic min0 st); epsilon = (Obj.magic (Zpos XH)); exact =
  (negb (Z.eqb g Z0)); aname = "guarded"; ainfo =
  (guarded_info p g st.g_display); str = (Obj.magic guarded_str st);
  raw_repr = (Obj.magic string_of_Z); areport = (guarded_report st) }

(** val qz : q -> bool **)

let qz q0 =
  Z.eqb q0.qnum Z0

(** val q_div : q -> q -> q res **)

let q_div a b =
  if qz b then Raise ZeroDivisionError else Ok (qred (qdiv a b))

(** val q_floordiv : q -> q -> q res **)

let q_floordiv a b =
  if qz b then Raise ZeroDivisionError else Ok (inject_Z (qfloor (qdiv a b)))

(** val q_lt : q -> q -> bool **)

let q_lt a b =
  match qcompare a b with
  | Lt -> true
  | _ -> false

(** val q_le : q -> q -> bool **)

let q_le a b =
  match qcompare a b with
  | Gt -> false
  | _ -> true

(** val rational_fmt : z -> q -> fmt_args **)

let rational_fmt dp q0 =
  let q1 = qred q0 in
  let dps = Z.pow (Zpos (XO (XI (XO XH)))) dp in
  let v =
    if (||) (Z.eqb q1.qnum Z0) (Z.eqb (Zpos q1.qden) (Zpos XH))
    then Z.mul q1.qnum dps
    else let w =
           qred
             (qplus q1
               (qred { qnum = (Zpos XH); qden =
                 (Z.to_pos (Z.mul dps (Zpos (XO XH)))) }))
         in
         Z.div (Z.mul w.qnum dps) (Zpos w.qden)
  in
  if Z.ltb v Z0
  then FmtNeg (Fmt2 ((Z.div (Z.opp v) dps), (Z.modulo (Z.opp v) dps)))
  else Fmt2 ((Z.div v dps), (Z.modulo v dps))

(** val rational_str : z -> q -> string **)

let rational_str dp q0 =
  render_fmt dp Z0 (rational_fmt dp q0)

(** val rational : z -> arith **)

let rational dp =
  { of_int = (fun n0 -> Obj.magic inject_Z n0); add0 = (fun a b ->
    Obj.magic qred (qplus (Obj.magic a) (Obj.magic b))); sub0 = (fun a b ->
    Obj.magic qred (qminus (Obj.magic a) (Obj.magic b))); mulv = (fun a b ->
    Obj.magic qred (qmult (Obj.magic a) (Obj.magic b))); divv =
    (Obj.magic q_div); floordivv = (Obj.magic q_floordiv); kmul =
    (fun a b _ -> Obj.magic qred (qmult (Obj.magic a) (Obj.magic b))); kdiv =
    (fun a b _ -> Obj.magic q_div a b); kmuldiv = (fun a b c _ ->
    Obj.magic q_div (qred (qmult (Obj.magic a) (Obj.magic b))) c); eqv =
    (Obj.magic qeq_bool); ltv = (Obj.magic q_lt); lev = (Obj.magic q_le);
    gtv = (fun a b -> q_lt (Obj.magic b) (Obj.magic a)); gev = (fun a b ->
    q_le (Obj.magic b) (Obj.magic a)); truth = (fun a ->
    negb (qz (Obj.magic a))); vmin = (py_min_by (Obj.magic q_lt)); epsilon =
    (Obj.magic { qnum = Z0; qden = XH }); exact = true; aname = "rational";
    ainfo = "rational arithmetic"; str = (Obj.magic rational_str dp);
    raw_repr = (fun q0 ->
    let r = qred (Obj.magic q0) in
    (^) (string_of_Z r.qnum) ((^) "/" (string_of_Z (Zpos r.qden))));
    areport = (fun _ _ -> "") }

type tok =
| TI of z
| TS of string

(** val exn_name : exn -> string **)

let exn_name = function
| ZeroDivisionError -> "ZeroDivisionError"
| ValueError -> "ValueError"
| IndexError -> "IndexError"
| TypeError -> "TypeError"
| AttributeError -> "AttributeError"
| AssertionError -> "AssertionError"
| KeyError -> "KeyError"
| UnboundLocalError -> "UnboundLocalError"
| OverflowError -> "OverflowError"
| NotImplementedErr -> "NotImplementedError"
| UsageError -> "UsageError"
| ElectionError -> "ElectionError"
| ElectionProfileError -> "ElectionProfileError"

(** val show_resZ : z res -> string **)

let show_resZ = function
| Ok z0 -> (^) "ok " (string_of_Z z0)
| Raise e -> (^) "exn " (exn_name e)

(** val show_resB : bool res -> string **)

let show_resB = function
| Ok a -> if a then "bool 1" else "bool 0"
| Raise e -> (^) "exn " (exn_name e)

(** val mk_operand : z -> z -> operand **)

let mk_operand kind v =
  if Z.eqb kind Z0 then OInt v else OVal v

(** val mk_rnd : z -> rnd **)

let mk_rnd z0 =
  if Z.eqb z0 Z0
  then RDown
  else if Z.eqb z0 (Zpos XH)
       then RUp
       else if Z.eqb z0 (Zpos (XO XH)) then RNone else ROther

(** val toks_ints : tok list -> z list **)

let rec toks_ints = function
| [] -> []
| t0 :: t1 ->
  (match t0 with
   | TI z0 -> z0 :: (toks_ints t1)
   | TS _ -> toks_ints t1)

(** val run_fixed :
    z -> z -> z -> z -> z -> z -> z -> z -> z -> z -> z list -> string **)

let run_fixed p d op rn ka a kb b kc c rest =
  let st = mk_fixed_cls p d in
  let a0 = mk_operand ka a in
  let b0 = mk_operand kb b in
  let c0 = mk_operand kc c in
  let r = mk_rnd rn in
  (match op with
   | Z0 -> show_resZ (init_r st a0 false)
   | Zpos p0 ->
     (match p0 with
      | XI p1 ->
        (match p1 with
         | XI p2 ->
           (match p2 with
            | XI p3 ->
              (match p3 with
               | XH -> show_resB (dunder_lt st a b0)
               | _ -> "badop")
            | XO p3 ->
              (match p3 with
               | XH -> show_resZ (div0 st a0 b0 r)
               | _ -> "badop")
            | XH -> show_resZ (dunder_mul st a b0))
         | XO p2 ->
           (match p2 with
            | XI p3 ->
              (match p3 with
               | XI _ -> "badop"
               | XO p4 ->
                 (match p4 with
                  | XH -> (^) "str " ((fixed p d).str (Obj.magic a))
                  | _ -> "badop")
               | XH -> show_resB (dunder_eq st a b0))
            | XO p3 ->
              (match p3 with
               | XI _ -> "badop"
               | XO p4 ->
                 (match p4 with
                  | XH -> show_resB (dunder_gt st a b0)
                  | _ -> "badop")
               | XH -> show_resZ (dunder_truediv st a b0))
            | XH -> show_resZ (dunder_abs st a))
         | XH -> show_resZ (dunder_neg st a))
      | XO p1 ->
        (match p1 with
         | XI p2 ->
           (match p2 with
            | XI p3 ->
              (match p3 with
               | XH -> show_resB (dunder_ne st a b0)
               | _ -> "badop")
            | XO p3 ->
              (match p3 with
               | XI _ -> "badop"
               | XO p4 ->
                 (match p4 with
                  | XH -> show_resB (dunder_ge st a b0)
                  | _ -> "badop")
               | XH -> show_resZ (mul0 st a0 b0 r))
            | XH -> show_resB (dunder_bool st a))
         | XO p2 ->
           (match p2 with
            | XI p3 ->
              (match p3 with
               | XI _ -> "badop"
               | XO p4 ->
                 (match p4 with
                  | XH -> show_resZ (min st rest)
                  | _ -> "badop")
               | XH -> show_resZ (muldiv st a0 b0 c0 r))
            | XO p3 ->
              (match p3 with
               | XI _ -> "badop"
               | XO p4 ->
                 (match p4 with
                  | XH -> show_resB (dunder_le st a b0)
                  | _ -> "badop")
               | XH -> show_resZ (dunder_floordiv st a b0))
            | XH -> show_resZ (dunder_pos st a))
         | XH -> show_resZ (dunder_sub st a b0))
      | XH -> show_resZ (dunder_add st a b0))
   | Zneg _ -> "badop")

(** val run_guarded :
    z -> z -> z -> z -> z -> z -> z -> z -> z -> z -> z -> z -> z list ->
    string **)

let run_guarded p g d stale op rn ka a kb b kc c rest =
  let st = mk_guarded_cls p g d stale in
  let a0 = mk_operand ka a in
  let b0 = mk_operand kb b in
  let c0 = mk_operand kc c in
  let r = mk_rnd rn in
  (match op with
   | Z0 -> show_resZ (init_r0 st a0 false)
   | Zpos p0 ->
     (match p0 with
      | XI p1 ->
        (match p1 with
         | XI p2 ->
           (match p2 with
            | XI p3 ->
              (match p3 with
               | XH -> show_resB (dunder_lt0 st a b0)
               | _ -> "badop")
            | XO p3 ->
              (match p3 with
               | XI _ -> "badop"
               | XO p4 ->
                 (match p4 with
                  | XH -> show_resZ (dunder_cmp st a b0)
                  | _ -> "badop")
               | XH -> show_resZ (div1 st a0 b0 r))
            | XH -> show_resZ (dunder_mul0 st a b0))
         | XO p2 ->
           (match p2 with
            | XI p3 ->
              (match p3 with
               | XI _ -> "badop"
               | XO p4 ->
                 (match p4 with
                  | XH -> (^) "str " ((guarded p g d stale).str (Obj.magic a))
                  | _ -> "badop")
               | XH -> show_resB (dunder_eq0 st a b0))
            | XO p3 ->
              (match p3 with
               | XI _ -> "badop"
               | XO p4 ->
                 (match p4 with
                  | XH -> show_resB (dunder_gt0 st a b0)
                  | _ -> "badop")
               | XH -> show_resZ (dunder_truediv0 st a b0))
            | XH -> show_resZ (dunder_abs0 st a))
         | XH -> show_resZ (dunder_neg0 st a))
      | XO p1 ->
        (match p1 with
         | XI p2 ->
           (match p2 with
            | XI p3 ->
              (match p3 with
               | XI _ -> "badop"
               | XO p4 ->
                 (match p4 with
                  | XH -> show_resZ (dunder_hash st a)
                  | _ -> "badop")
               | XH -> show_resB (dunder_ne0 st a b0))
            | XO p3 ->
              (match p3 with
               | XI _ -> "badop"
               | XO p4 ->
                 (match p4 with
                  | XH -> show_resB (dunder_ge0 st a b0)
                  | _ -> "badop")
               | XH -> show_resZ (mul1 st a0 b0 r))
            | XH -> show_resB (dunder_bool0 st a))
         | XO p2 ->
           (match p2 with
            | XI p3 ->
              (match p3 with
               | XI _ -> "badop"
               | XO p4 ->
                 (match p4 with
                  | XH -> show_resZ (min0 st rest)
                  | _ -> "badop")
               | XH -> show_resZ (muldiv0 st a0 b0 c0 r))
            | XO p3 ->
              (match p3 with
               | XI _ -> "badop"
               | XO p4 ->
                 (match p4 with
                  | XH -> show_resB (dunder_le0 st a b0)
                  | _ -> "badop")
               | XH -> show_resZ (dunder_floordiv0 st a b0))
            | XH -> show_resZ (dunder_pos0 st a))
         | XH -> show_resZ (dunder_sub0 st a b0))
      | XH -> show_resZ (dunder_add0 st a b0))
   | Zneg _ -> "badop")

(** val mkq : z -> z -> q **)

let mkq n0 d =
  qred { qnum = n0; qden = (Z.to_pos d) }

(** val show_q : q -> string **)

let show_q q0 =
  (rational Z0).raw_repr (Obj.magic q0)

(** val show_resQ : q res -> string **)

let show_resQ = function
| Ok q0 -> (^) "ok " (show_q q0)
| Raise e -> (^) "exn " (exn_name e)

(** val showb : bool -> string **)

let showb = function
| true -> "bool 1"
| false -> "bool 0"

(** val run_rational : z -> z -> z -> z -> z -> z -> z -> z -> z -> string **)

let run_rational dp op rn an ad bn bd cn cd =
  let r = rational dp in
  let a = mkq an ad in
  let b = mkq bn bd in
  let c = mkq cn cd in
  let r0 = mk_rnd rn in
  (match op with
   | Zpos p ->
     (match p with
      | XI p0 ->
        (match p0 with
         | XI p1 ->
           (match p1 with
            | XI p2 ->
              (match p2 with
               | XH -> showb (r.ltv (Obj.magic a) (Obj.magic b))
               | _ -> "badop")
            | XO p2 ->
              (match p2 with
               | XH -> show_resQ (Obj.magic r.kdiv a b r0)
               | _ -> "badop")
            | XH -> (^) "ok " (show_q (Obj.magic r.mulv a b)))
         | XO p1 ->
           (match p1 with
            | XI p2 ->
              (match p2 with
               | XI _ -> "badop"
               | XO p3 ->
                 (match p3 with
                  | XH -> (^) "str " (r.str (Obj.magic a))
                  | _ -> "badop")
               | XH -> showb (r.eqv (Obj.magic a) (Obj.magic b)))
            | XO p2 ->
              (match p2 with
               | XI _ -> "badop"
               | XO p3 ->
                 (match p3 with
                  | XH -> showb (r.gtv (Obj.magic a) (Obj.magic b))
                  | _ -> "badop")
               | XH -> show_resQ (Obj.magic r.divv a b))
            | XH -> "badop")
         | XH -> "badop")
      | XO p0 ->
        (match p0 with
         | XI p1 ->
           (match p1 with
            | XI p2 ->
              (match p2 with
               | XH -> showb (nev r (Obj.magic a) (Obj.magic b))
               | _ -> "badop")
            | XO p2 ->
              (match p2 with
               | XI _ -> "badop"
               | XO p3 ->
                 (match p3 with
                  | XH -> showb (r.gev (Obj.magic a) (Obj.magic b))
                  | _ -> "badop")
               | XH -> (^) "ok " (show_q (Obj.magic r.kmul a b r0)))
            | XH -> showb (r.truth (Obj.magic a)))
         | XO p1 ->
           (match p1 with
            | XI p2 ->
              (match p2 with
               | XH -> show_resQ (Obj.magic r.kmuldiv a b c r0)
               | _ -> "badop")
            | XO p2 ->
              (match p2 with
               | XI _ -> "badop"
               | XO p3 ->
                 (match p3 with
                  | XH -> showb (r.lev (Obj.magic a) (Obj.magic b))
                  | _ -> "badop")
               | XH -> show_resQ (Obj.magic r.floordivv a b))
            | XH -> "badop")
         | XH -> (^) "ok " (show_q (Obj.magic r.sub0 a b)))
      | XH -> (^) "ok " (show_q (Obj.magic r.add0 a b)))
   | _ -> "badop")

(** val run_values : z list -> string **)

let run_values = function
| [] -> "badcase"
| z0 :: l0 ->
  (match z0 with
   | Z0 ->
     (match l0 with
      | [] -> "badcase"
      | p :: l1 ->
        (match l1 with
         | [] -> "badcase"
         | d :: l2 ->
           (match l2 with
            | [] -> "badcase"
            | op :: l3 ->
              (match l3 with
               | [] -> "badcase"
               | rn :: l4 ->
                 (match l4 with
                  | [] -> "badcase"
                  | ka :: l5 ->
                    (match l5 with
                     | [] -> "badcase"
                     | a :: l6 ->
                       (match l6 with
                        | [] -> "badcase"
                        | kb :: l7 ->
                          (match l7 with
                           | [] -> "badcase"
                           | b :: l8 ->
                             (match l8 with
                              | [] -> "badcase"
                              | kc :: l9 ->
                                (match l9 with
                                 | [] -> "badcase"
                                 | c :: rest ->
                                   run_fixed p d op rn ka a kb b kc c rest))))))))))
   | Zpos p0 ->
     (match p0 with
      | XI _ -> "badcase"
      | XO p ->
        (match p with
         | XH ->
           (match l0 with
            | [] -> "badcase"
            | dp :: l1 ->
              (match l1 with
               | [] -> "badcase"
               | op :: l2 ->
                 (match l2 with
                  | [] -> "badcase"
                  | rn :: l3 ->
                    (match l3 with
                     | [] -> "badcase"
                     | an :: l4 ->
                       (match l4 with
                        | [] -> "badcase"
                        | ad :: l5 ->
                          (match l5 with
                           | [] -> "badcase"
                           | bn :: l6 ->
                             (match l6 with
                              | [] -> "badcase"
                              | bd :: l7 ->
                                (match l7 with
                                 | [] -> "badcase"
                                 | cn :: l8 ->
                                   (match l8 with
                                    | [] -> "badcase"
                                    | cd :: _ ->
                                      run_rational dp op rn an ad bn bd cn cd)))))))))
         | _ -> "badcase")
      | XH ->
        (match l0 with
         | [] -> "badcase"
         | p :: l1 ->
           (match l1 with
            | [] -> "badcase"
            | g :: l2 ->
              (match l2 with
               | [] -> "badcase"
               | d :: l3 ->
                 (match l3 with
                  | [] -> "badcase"
                  | stale :: l4 ->
                    (match l4 with
                     | [] -> "badcase"
                     | op :: l5 ->
                       (match l5 with
                        | [] -> "badcase"
                        | rn :: l6 ->
                          (match l6 with
                           | [] -> "badcase"
                           | ka :: l7 ->
                             (match l7 with
                              | [] -> "badcase"
                              | a :: l8 ->
                                (match l8 with
                                 | [] -> "badcase"
                                 | kb :: l9 ->
                                   (match l9 with
                                    | [] -> "badcase"
                                    | b :: l10 ->
                                      (match l10 with
                                       | [] -> "badcase"
                                       | kc :: l11 ->
                                         (match l11 with
                                          | [] -> "badcase"
                                          | c :: rest ->
                                            run_guarded p g d stale op rn ka
                                              a kb b kc c rest)))))))))))))
   | Zneg _ -> "badcase")

(** val run : tok list -> string **)

let run = function
| [] -> "badcommand"
| t0 :: rest ->
  (match t0 with
   | TI _ -> "badcommand"
   | TS s ->
     ((* If this appears, you're using String internals. Please don't *)
 (fun f0 f1 s ->
    let l = String.length s in
    if l = 0 then f0 () else f1 (String.get s 0) (String.sub s 1 (l-1)))

        (fun _ -> "badcommand")
        (fun a s0 ->
        (* If this appears, you're using Ascii internals. Please don't *)
 (fun f c ->
  let n = Char.code c in
  let h i = (n land (1 lsl i)) <> 0 in
  f (h 0) (h 1) (h 2) (h 3) (h 4) (h 5) (h 6) (h 7))
          (fun b b0 b1 b2 b3 b4 b5 b6 ->
          if b
          then "badcommand"
          else if b0
               then if b1
                    then if b2
                         then "badcommand"
                         else if b3
                              then if b4
                                   then if b5
                                        then if b6
                                             then "badcommand"
                                             else ((* If this appears, you're using String internals. Please don't *)
 (fun f0 f1 s ->
    let l = String.length s in
    if l = 0 then f0 () else f1 (String.get s 0) (String.sub s 1 (l-1)))

                                                     (fun _ ->
                                                     "badcommand")
                                                     (fun a0 s1 ->
                                                     (* If this appears, you're using Ascii internals. Please don't *)
 (fun f c ->
  let n = Char.code c in
  let h i = (n land (1 lsl i)) <> 0 in
  f (h 0) (h 1) (h 2) (h 3) (h 4) (h 5) (h 6) (h 7))
                                                       (fun b7 b8 b9 b10 b11 b12 b13 b14 ->
                                                       if b7
                                                       then if b8
                                                            then "badcommand"
                                                            else if b9
                                                                 then 
                                                                   "badcommand"
                                                                 else 
                                                                   if b10
                                                                   then 
                                                                    "badcommand"
                                                                   else 
                                                                    if b11
                                                                    then 
                                                                    "badcommand"
                                                                    else 
                                                                    if b12
                                                                    then 
                                                                    if b13
                                                                    then 
                                                                    if b14
                                                                    then 
                                                                    "badcommand"
                                                                    else 
                                                                    ((* If this appears, you're using String internals. Please don't *)
 (fun f0 f1 s ->
    let l = String.length s in
    if l = 0 then f0 () else f1 (String.get s 0) (String.sub s 1 (l-1)))

                                                                    (fun _ ->
                                                                    "badcommand")
                                                                    (fun a1 s2 ->
                                                                    (* If this appears, you're using Ascii internals. Please don't *)
 (fun f c ->
  let n = Char.code c in
  let h i = (n land (1 lsl i)) <> 0 in
  f (h 0) (h 1) (h 2) (h 3) (h 4) (h 5) (h 6) (h 7))
                                                                    (fun b15 b16 b17 b18 b19 b20 b21 b22 ->
                                                                    if b15
                                                                    then 
                                                                    "badcommand"
                                                                    else 
                                                                    if b16
                                                                    then 
                                                                    "badcommand"
                                                                    else 
                                                                    if b17
                                                                    then 
                                                                    if b18
                                                                    then 
                                                                    if b19
                                                                    then 
                                                                    "badcommand"
                                                                    else 
                                                                    if b20
                                                                    then 
                                                                    if b21
                                                                    then 
                                                                    if b22
                                                                    then 
                                                                    "badcommand"
                                                                    else 
                                                                    ((* If this appears, you're using String internals. Please don't *)
 (fun f0 f1 s ->
    let l = String.length s in
    if l = 0 then f0 () else f1 (String.get s 0) (String.sub s 1 (l-1)))

                                                                    (fun _ ->
                                                                    "badcommand")
                                                                    (fun a2 s3 ->
                                                                    (* If this appears, you're using Ascii internals. Please don't *)
 (fun f c ->
  let n = Char.code c in
  let h i = (n land (1 lsl i)) <> 0 in
  f (h 0) (h 1) (h 2) (h 3) (h 4) (h 5) (h 6) (h 7))
                                                                    (fun b23 b24 b25 b26 b27 b28 b29 b30 ->
                                                                    if b23
                                                                    then 
                                                                    if b24
                                                                    then 
                                                                    "badcommand"
                                                                    else 
                                                                    if b25
                                                                    then 
                                                                    if b26
                                                                    then 
                                                                    "badcommand"
                                                                    else 
                                                                    if b27
                                                                    then 
                                                                    if b28
                                                                    then 
                                                                    if b29
                                                                    then 
                                                                    if b30
                                                                    then 
                                                                    "badcommand"
                                                                    else 
                                                                    ((* If this appears, you're using String internals. Please don't *)
 (fun f0 f1 s ->
    let l = String.length s in
    if l = 0 then f0 () else f1 (String.get s 0) (String.sub s 1 (l-1)))

                                                                    (fun _ ->
                                                                    "badcommand")
                                                                    (fun a3 s4 ->
                                                                    (* If this appears, you're using Ascii internals. Please don't *)
 (fun f c ->
  let n = Char.code c in
  let h i = (n land (1 lsl i)) <> 0 in
  f (h 0) (h 1) (h 2) (h 3) (h 4) (h 5) (h 6) (h 7))
                                                                    (fun b31 b32 b33 b34 b35 b36 b37 b38 ->
                                                                    if b31
                                                                    then 
                                                                    if b32
                                                                    then 
                                                                    "badcommand"
                                                                    else 
                                                                    if b33
                                                                    then 
                                                                    if b34
                                                                    then 
                                                                    "badcommand"
                                                                    else 
                                                                    if b35
                                                                    then 
                                                                    "badcommand"
                                                                    else 
                                                                    if b36
                                                                    then 
                                                                    if b37
                                                                    then 
                                                                    if b38
                                                                    then 
                                                                    "badcommand"
                                                                    else 
                                                                    ((* If this appears, you're using String internals. Please don't *)
 (fun f0 f1 s ->
    let l = String.length s in
    if l = 0 then f0 () else f1 (String.get s 0) (String.sub s 1 (l-1)))

                                                                    (fun _ ->
                                                                    "badcommand")
                                                                    (fun a4 s5 ->
                                                                    (* If this appears, you're using Ascii internals. Please don't *)
 (fun f c ->
  let n = Char.code c in
  let h i = (n land (1 lsl i)) <> 0 in
  f (h 0) (h 1) (h 2) (h 3) (h 4) (h 5) (h 6) (h 7))
                                                                    (fun b39 b40 b41 b42 b43 b44 b45 b46 ->
                                                                    if b39
                                                                    then 
                                                                    if b40
                                                                    then 
                                                                    if b41
                                                                    then 
                                                                    "badcommand"
                                                                    else 
                                                                    if b42
                                                                    then 
                                                                    "badcommand"
                                                                    else 
                                                                    if b43
                                                                    then 
                                                                    if b44
                                                                    then 
                                                                    if b45
                                                                    then 
                                                                    if b46
                                                                    then 
                                                                    "badcommand"
                                                                    else 
                                                                    ((* If this appears, you're using String internals. Please don't *)
 (fun f0 f1 s ->
    let l = String.length s in
    if l = 0 then f0 () else f1 (String.get s 0) (String.sub s 1 (l-1)))

                                                                    (fun _ ->
                                                                    run_values
                                                                    (toks_ints
                                                                    rest))
                                                                    (fun _ _ ->
                                                                    "badcommand")
                                                                    s5)
                                                                    else 
                                                                    "badcommand"
                                                                    else 
                                                                    "badcommand"
                                                                    else 
                                                                    "badcommand"
                                                                    else 
                                                                    "badcommand"
                                                                    else 
                                                                    "badcommand")
                                                                    a4)
                                                                    s4)
                                                                    else 
                                                                    "badcommand"
                                                                    else 
                                                                    "badcommand"
                                                                    else 
                                                                    "badcommand"
                                                                    else 
                                                                    "badcommand")
                                                                    a3)
                                                                    s3)
                                                                    else 
                                                                    "badcommand"
                                                                    else 
                                                                    "badcommand"
                                                                    else 
                                                                    "badcommand"
                                                                    else 
                                                                    "badcommand"
                                                                    else 
                                                                    "badcommand")
                                                                    a2)
                                                                    s2)
                                                                    else 
                                                                    "badcommand"
                                                                    else 
                                                                    "badcommand"
                                                                    else 
                                                                    "badcommand"
                                                                    else 
                                                                    "badcommand")
                                                                    a1)
                                                                    s1)
                                                                    else 
                                                                    "badcommand"
                                                                    else 
                                                                    "badcommand"
                                                       else "badcommand")
                                                       a0)
                                                     s0)
                                        else "badcommand"
                                   else "badcommand"
                              else "badcommand"
                    else "badcommand"
               else "badcommand")
          a)
        s))
