(* Generic driver: one case per input line, tokens separated by blanks.
   i<decimal>  integer token        s<hex>  string token (hex-encoded bytes)
   Output: the model's answer, then a line "=== END". *)
let unhex s =
  let n = String.length s / 2 in
  String.init n (fun i -> Char.chr (int_of_string ("0x" ^ String.sub s (2*i) 2)))

let parse_tok t =
  match t.[0] with
  | 'i' -> Model.TI (Zconv.of_string (String.sub t 1 (String.length t - 1)))
  | 's' -> Model.TS (unhex (String.sub t 1 (String.length t - 1)))
  | _ -> failwith ("bad token " ^ t)

let () =
  try
    while true do
      let line = input_line stdin in
      let toks = List.filter (fun s -> s <> "") (String.split_on_char ' ' line) in
      let case = List.map parse_tok toks in
      let out = (try Model.run case with Stack_overflow -> "MODEL-STACK-OVERFLOW") in
      print_string out; print_string "\n=== END\n"; flush stdout
    done
  with End_of_file -> ()
