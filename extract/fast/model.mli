
type __ = Obj.t

val negb : bool -> bool

type nat =
| O
| S of nat

val snd : ('a1 * 'a2) -> 'a2

type comparison =
| Eq
| Lt
| Gt

type uint =
| Nil
| D0 of uint
| D1 of uint
| D2 of uint
| D3 of uint
| D4 of uint
| D5 of uint
| D6 of uint
| D7 of uint
| D8 of uint
| D9 of uint

type signed_int =
| Pos of uint
| Neg of uint

val revapp : uint -> uint -> uint

val rev : uint -> uint

module Little :
 sig
  val double : uint -> uint

  val succ_double : uint -> uint
 end

val add : nat -> nat -> nat

val sub : nat -> nat -> nat

module Pos :
 sig
  type mask =
  | IsNul
  | IsPos of Big_int_Z.big_int
  | IsNeg
 end

module Coq_Pos :
 sig
  val succ : Big_int_Z.big_int -> Big_int_Z.big_int

  val add : Big_int_Z.big_int -> Big_int_Z.big_int -> Big_int_Z.big_int

  val add_carry : Big_int_Z.big_int -> Big_int_Z.big_int -> Big_int_Z.big_int

  val pred_double : Big_int_Z.big_int -> Big_int_Z.big_int

  type mask = Pos.mask =
  | IsNul
  | IsPos of Big_int_Z.big_int
  | IsNeg

  val succ_double_mask : mask -> mask

  val double_mask : mask -> mask

  val double_pred_mask : Big_int_Z.big_int -> mask

  val sub_mask : Big_int_Z.big_int -> Big_int_Z.big_int -> mask

  val sub_mask_carry : Big_int_Z.big_int -> Big_int_Z.big_int -> mask

  val sub : Big_int_Z.big_int -> Big_int_Z.big_int -> Big_int_Z.big_int

  val mul : Big_int_Z.big_int -> Big_int_Z.big_int -> Big_int_Z.big_int

  val iter : ('a1 -> 'a1) -> 'a1 -> Big_int_Z.big_int -> 'a1

  val size_nat : Big_int_Z.big_int -> nat

  val compare_cont :
    comparison -> Big_int_Z.big_int -> Big_int_Z.big_int -> comparison

  val compare : Big_int_Z.big_int -> Big_int_Z.big_int -> comparison

  val eqb : Big_int_Z.big_int -> Big_int_Z.big_int -> bool

  val ggcdn :
    nat -> Big_int_Z.big_int -> Big_int_Z.big_int ->
    Big_int_Z.big_int * (Big_int_Z.big_int * Big_int_Z.big_int)

  val ggcd :
    Big_int_Z.big_int -> Big_int_Z.big_int ->
    Big_int_Z.big_int * (Big_int_Z.big_int * Big_int_Z.big_int)

  val iter_op : ('a1 -> 'a1 -> 'a1) -> Big_int_Z.big_int -> 'a1 -> 'a1

  val to_nat : Big_int_Z.big_int -> nat

  val of_succ_nat : nat -> Big_int_Z.big_int

  val to_little_uint : Big_int_Z.big_int -> uint

  val to_uint : Big_int_Z.big_int -> uint
 end

module N :
 sig
  val of_nat : nat -> Big_int_Z.big_int
 end

val zero : char

val one : char

val shift : bool -> char -> char

val ascii_of_pos : Big_int_Z.big_int -> char

val ascii_of_N : Big_int_Z.big_int -> char

val ascii_of_nat : nat -> char

val fold_left : ('a1 -> 'a2 -> 'a1) -> 'a2 list -> 'a1 -> 'a1

val existsb : ('a1 -> bool) -> 'a1 list -> bool

module Z :
 sig
  val double : Big_int_Z.big_int -> Big_int_Z.big_int

  val succ_double : Big_int_Z.big_int -> Big_int_Z.big_int

  val pred_double : Big_int_Z.big_int -> Big_int_Z.big_int

  val pos_sub : Big_int_Z.big_int -> Big_int_Z.big_int -> Big_int_Z.big_int

  val add : Big_int_Z.big_int -> Big_int_Z.big_int -> Big_int_Z.big_int

  val opp : Big_int_Z.big_int -> Big_int_Z.big_int

  val sub : Big_int_Z.big_int -> Big_int_Z.big_int -> Big_int_Z.big_int

  val mul : Big_int_Z.big_int -> Big_int_Z.big_int -> Big_int_Z.big_int

  val pow_pos : Big_int_Z.big_int -> Big_int_Z.big_int -> Big_int_Z.big_int

  val pow : Big_int_Z.big_int -> Big_int_Z.big_int -> Big_int_Z.big_int

  val compare : Big_int_Z.big_int -> Big_int_Z.big_int -> comparison

  val sgn : Big_int_Z.big_int -> Big_int_Z.big_int

  val leb : Big_int_Z.big_int -> Big_int_Z.big_int -> bool

  val ltb : Big_int_Z.big_int -> Big_int_Z.big_int -> bool

  val eqb : Big_int_Z.big_int -> Big_int_Z.big_int -> bool

  val abs : Big_int_Z.big_int -> Big_int_Z.big_int

  val to_nat : Big_int_Z.big_int -> nat

  val to_pos : Big_int_Z.big_int -> Big_int_Z.big_int

  val to_int : Big_int_Z.big_int -> signed_int

  val pos_div_eucl :
    Big_int_Z.big_int -> Big_int_Z.big_int ->
    Big_int_Z.big_int * Big_int_Z.big_int

  val div_eucl :
    Big_int_Z.big_int -> Big_int_Z.big_int ->
    Big_int_Z.big_int * Big_int_Z.big_int

  val div : Big_int_Z.big_int -> Big_int_Z.big_int -> Big_int_Z.big_int

  val modulo : Big_int_Z.big_int -> Big_int_Z.big_int -> Big_int_Z.big_int

  val ggcd :
    Big_int_Z.big_int -> Big_int_Z.big_int ->
    Big_int_Z.big_int * (Big_int_Z.big_int * Big_int_Z.big_int)
 end

val zeq_bool : Big_int_Z.big_int -> Big_int_Z.big_int -> bool

val length : string -> nat

type q = { qnum : Big_int_Z.big_int; qden : Big_int_Z.big_int }

val inject_Z : Big_int_Z.big_int -> q

val qcompare : q -> q -> comparison

val qeq_bool : q -> q -> bool

val qplus : q -> q -> q

val qmult : q -> q -> q

val qopp : q -> q

val qminus : q -> q -> q

val qinv : q -> q

val qdiv : q -> q -> q

val qred : q -> q

type exn =
| ZeroDivisionError
| ValueError
| IndexError
| TypeError
| AttributeError
| AssertionError
| KeyError
| UnboundLocalError
| OverflowError
| NotImplementedErr
| UsageError
| ElectionError
| ElectionProfileError

type 'a res =
| Ok of 'a
| Raise of exn

val bind : 'a1 res -> ('a1 -> 'a2 res) -> 'a2 res

type operand =
| OInt of Big_int_Z.big_int
| OVal of Big_int_Z.big_int

val operand_raw : operand -> Big_int_Z.big_int

val operand_value : operand -> Big_int_Z.big_int res

val res_true : bool res -> bool

type rnd =
| RUp
| RDown
| RNone
| ROther

val rnd_eqb : rnd -> rnd -> bool

val rnd_in : rnd -> rnd list -> bool

val pydiv : Big_int_Z.big_int -> Big_int_Z.big_int -> Big_int_Z.big_int res

val pymod : Big_int_Z.big_int -> Big_int_Z.big_int -> Big_int_Z.big_int res

val pydivmod :
  Big_int_Z.big_int -> Big_int_Z.big_int ->
  (Big_int_Z.big_int * Big_int_Z.big_int) res

val truthy : Big_int_Z.big_int -> bool

val py_min_by : ('a1 -> 'a1 -> bool) -> 'a1 list -> 'a1 res

type fixed_cls = { f_precision : Big_int_Z.big_int;
                   f_display : Big_int_Z.big_int;
                   f_scale : Big_int_Z.big_int; f_scaled : Big_int_Z.big_int;
                   f_scaledd : Big_int_Z.big_int;
                   f_scaledr : Big_int_Z.big_int }

type guarded_cls = { g_precision : Big_int_Z.big_int;
                     g_guard : Big_int_Z.big_int;
                     g_display : Big_int_Z.big_int;
                     g_scale : Big_int_Z.big_int;
                     g_scalep : Big_int_Z.big_int;
                     g_scaleg : Big_int_Z.big_int;
                     g_scaled : Big_int_Z.big_int;
                     g_scaledd : Big_int_Z.big_int;
                     g_scaledr : Big_int_Z.big_int;
                     g_scaledg : Big_int_Z.big_int; g_geps : Big_int_Z.big_int }

type fmt_args =
| Fmt2 of Big_int_Z.big_int * Big_int_Z.big_int
| Fmt3 of Big_int_Z.big_int * Big_int_Z.big_int * Big_int_Z.big_int
| FmtInt of Big_int_Z.big_int
| FmtNeg of fmt_args

module NilEmpty :
 sig
  val string_of_uint : uint -> string
 end

module NilZero :
 sig
  val string_of_uint : uint -> string

  val string_of_int : signed_int -> string
 end

val string_of_Z : Big_int_Z.big_int -> string

val zeros : nat -> string

val pad0 : Big_int_Z.big_int -> Big_int_Z.big_int -> string

val render_fmt : Big_int_Z.big_int -> Big_int_Z.big_int -> fmt_args -> string

val qfloor : q -> Big_int_Z.big_int

val init_r : fixed_cls -> operand -> bool -> Big_int_Z.big_int res

val init : fixed_cls -> operand -> bool -> Big_int_Z.big_int

val dunder_add :
  fixed_cls -> Big_int_Z.big_int -> operand -> Big_int_Z.big_int res

val dunder_sub :
  fixed_cls -> Big_int_Z.big_int -> operand -> Big_int_Z.big_int res

val dunder_neg : fixed_cls -> Big_int_Z.big_int -> Big_int_Z.big_int res

val dunder_pos : fixed_cls -> Big_int_Z.big_int -> Big_int_Z.big_int res

val dunder_bool : fixed_cls -> Big_int_Z.big_int -> bool res

val dunder_abs : fixed_cls -> Big_int_Z.big_int -> Big_int_Z.big_int res

val dunder_mul :
  fixed_cls -> Big_int_Z.big_int -> operand -> Big_int_Z.big_int res

val dunder_floordiv :
  fixed_cls -> Big_int_Z.big_int -> operand -> Big_int_Z.big_int res

val mul0 : fixed_cls -> operand -> operand -> rnd -> Big_int_Z.big_int res

val div0 : fixed_cls -> operand -> operand -> rnd -> Big_int_Z.big_int res

val muldiv :
  fixed_cls -> operand -> operand -> operand -> rnd -> Big_int_Z.big_int res

val dunder_eq : fixed_cls -> Big_int_Z.big_int -> operand -> bool res

val dunder_ne : fixed_cls -> Big_int_Z.big_int -> operand -> bool res

val dunder_lt : fixed_cls -> Big_int_Z.big_int -> operand -> bool res

val dunder_le : fixed_cls -> Big_int_Z.big_int -> operand -> bool res

val dunder_gt : fixed_cls -> Big_int_Z.big_int -> operand -> bool res

val dunder_ge : fixed_cls -> Big_int_Z.big_int -> operand -> bool res

val min : fixed_cls -> Big_int_Z.big_int list -> Big_int_Z.big_int res

val dunder_str : fixed_cls -> Big_int_Z.big_int -> fmt_args res

val dunder_truediv :
  fixed_cls -> Big_int_Z.big_int -> operand -> Big_int_Z.big_int res

val init_r0 : guarded_cls -> operand -> bool -> Big_int_Z.big_int res

val init0 : guarded_cls -> operand -> bool -> Big_int_Z.big_int

val dunder_add0 :
  guarded_cls -> Big_int_Z.big_int -> operand -> Big_int_Z.big_int res

val dunder_sub0 :
  guarded_cls -> Big_int_Z.big_int -> operand -> Big_int_Z.big_int res

val dunder_neg0 : guarded_cls -> Big_int_Z.big_int -> Big_int_Z.big_int res

val dunder_pos0 : guarded_cls -> Big_int_Z.big_int -> Big_int_Z.big_int res

val dunder_bool0 : guarded_cls -> Big_int_Z.big_int -> bool res

val dunder_abs0 : guarded_cls -> Big_int_Z.big_int -> Big_int_Z.big_int res

val dunder_mul0 :
  guarded_cls -> Big_int_Z.big_int -> operand -> Big_int_Z.big_int res

val dunder_floordiv0 :
  guarded_cls -> Big_int_Z.big_int -> operand -> Big_int_Z.big_int res

val mul1 : guarded_cls -> operand -> operand -> rnd -> Big_int_Z.big_int res

val div1 : guarded_cls -> operand -> operand -> rnd -> Big_int_Z.big_int res

val muldiv0 :
  guarded_cls -> operand -> operand -> operand -> rnd -> Big_int_Z.big_int res

val dunder_cmp :
  guarded_cls -> Big_int_Z.big_int -> operand -> Big_int_Z.big_int res

val dunder_eq0 : guarded_cls -> Big_int_Z.big_int -> operand -> bool res

val dunder_ne0 : guarded_cls -> Big_int_Z.big_int -> operand -> bool res

val dunder_lt0 : guarded_cls -> Big_int_Z.big_int -> operand -> bool res

val dunder_le0 : guarded_cls -> Big_int_Z.big_int -> operand -> bool res

val dunder_gt0 : guarded_cls -> Big_int_Z.big_int -> operand -> bool res

val dunder_ge0 : guarded_cls -> Big_int_Z.big_int -> operand -> bool res

val min0 : guarded_cls -> Big_int_Z.big_int list -> Big_int_Z.big_int res

val dunder_str0 : guarded_cls -> Big_int_Z.big_int -> fmt_args res

val dunder_hash : guarded_cls -> Big_int_Z.big_int -> Big_int_Z.big_int res

val dunder_truediv0 :
  guarded_cls -> Big_int_Z.big_int -> operand -> Big_int_Z.big_int res

val unres : 'a1 -> 'a1 res -> 'a1

type arith = { of_int : (Big_int_Z.big_int -> __); add0 : (__ -> __ -> __);
               sub0 : (__ -> __ -> __); mulv : (__ -> __ -> __);
               divv : (__ -> __ -> __ res); floordivv : (__ -> __ -> __ res);
               kmul : (__ -> __ -> rnd -> __);
               kdiv : (__ -> __ -> rnd -> __ res);
               kmuldiv : (__ -> __ -> __ -> rnd -> __ res);
               eqv : (__ -> __ -> bool); ltv : (__ -> __ -> bool);
               lev : (__ -> __ -> bool); gtv : (__ -> __ -> bool);
               gev : (__ -> __ -> bool); truth : (__ -> bool);
               vmin : (__ list -> __ res); epsilon : __; exact : bool;
               aname : string; ainfo : string; str : (__ -> string);
               raw_repr : (__ -> string);
               areport : (string -> string -> string) }

type t = __

val nev : arith -> t -> t -> bool

val fixed_display :
  Big_int_Z.big_int -> Big_int_Z.big_int -> Big_int_Z.big_int

val mk_fixed_cls : Big_int_Z.big_int -> Big_int_Z.big_int -> fixed_cls

val fixed_str : fixed_cls -> Big_int_Z.big_int -> string

val fixed_info : Big_int_Z.big_int -> Big_int_Z.big_int -> string

val fixed : Big_int_Z.big_int -> Big_int_Z.big_int -> arith

val mk_guarded_cls :
  Big_int_Z.big_int -> Big_int_Z.big_int -> Big_int_Z.big_int ->
  Big_int_Z.big_int -> guarded_cls

val guarded_str : guarded_cls -> Big_int_Z.big_int -> string

val guarded_info :
  Big_int_Z.big_int -> Big_int_Z.big_int -> Big_int_Z.big_int -> string

val tab : string

val nl : string

val guarded_report : guarded_cls -> string -> string -> string

val guarded :
  Big_int_Z.big_int -> Big_int_Z.big_int -> Big_int_Z.big_int ->
  Big_int_Z.big_int -> arith

val qz : q -> bool

val q_div : q -> q -> q res

val q_floordiv : q -> q -> q res

val q_lt : q -> q -> bool

val q_le : q -> q -> bool

val rational_fmt : Big_int_Z.big_int -> q -> fmt_args

val rational_str : Big_int_Z.big_int -> q -> string

val rational : Big_int_Z.big_int -> arith

type tok =
| TI of Big_int_Z.big_int
| TS of string

val exn_name : exn -> string

val show_resZ : Big_int_Z.big_int res -> string

val show_resB : bool res -> string

val mk_operand : Big_int_Z.big_int -> Big_int_Z.big_int -> operand

val mk_rnd : Big_int_Z.big_int -> rnd

val toks_ints : tok list -> Big_int_Z.big_int list

val run_fixed :
  Big_int_Z.big_int -> Big_int_Z.big_int -> Big_int_Z.big_int ->
  Big_int_Z.big_int -> Big_int_Z.big_int -> Big_int_Z.big_int ->
  Big_int_Z.big_int -> Big_int_Z.big_int -> Big_int_Z.big_int ->
  Big_int_Z.big_int -> Big_int_Z.big_int list -> string

val run_guarded :
  Big_int_Z.big_int -> Big_int_Z.big_int -> Big_int_Z.big_int ->
  Big_int_Z.big_int -> Big_int_Z.big_int -> Big_int_Z.big_int ->
  Big_int_Z.big_int -> Big_int_Z.big_int -> Big_int_Z.big_int ->
  Big_int_Z.big_int -> Big_int_Z.big_int -> Big_int_Z.big_int ->
  Big_int_Z.big_int list -> string

val mkq : Big_int_Z.big_int -> Big_int_Z.big_int -> q

val show_q : q -> string

val show_resQ : q res -> string

val showb : bool -> string

val run_rational :
  Big_int_Z.big_int -> Big_int_Z.big_int -> Big_int_Z.big_int ->
  Big_int_Z.big_int -> Big_int_Z.big_int -> Big_int_Z.big_int ->
  Big_int_Z.big_int -> Big_int_Z.big_int -> Big_int_Z.big_int -> string

val run_values : Big_int_Z.big_int list -> string

val run : tok list -> string
