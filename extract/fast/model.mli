
type __ = Obj.t

val negb : bool -> bool

type nat =
| O
| S of nat

val option_map : ('a1 -> 'a2) -> 'a1 option -> 'a2 option

type ('a, 'b) sum =
| Inl of 'a
| Inr of 'b

val fst : ('a1 * 'a2) -> 'a1

val snd : ('a1 * 'a2) -> 'a2

val length : 'a1 list -> nat

val app : 'a1 list -> 'a1 list -> 'a1 list

type comparison =
| Eq
| Lt
| Gt

type uint =
| Nil
| D0 of uint
| D1 of uint
| D2 of uint
| D3 of uint
| D4 of uint
| D5 of uint
| D6 of uint
| D7 of uint
| D8 of uint
| D9 of uint

type signed_int =
| Pos of uint
| Neg of uint

val revapp : uint -> uint -> uint

val rev : uint -> uint

module Little :
 sig
  val double : uint -> uint

  val succ_double : uint -> uint
 end

val add : nat -> nat -> nat

val mul : nat -> nat -> nat

val sub : nat -> nat -> nat

module Nat :
 sig
  val sub : nat -> nat -> nat

  val eqb : nat -> nat -> bool

  val leb : nat -> nat -> bool

  val ltb : nat -> nat -> bool

  val divmod : nat -> nat -> nat -> nat -> nat * nat

  val div : nat -> nat -> nat

  val modulo : nat -> nat -> nat

  val div2 : nat -> nat
 end

module Pos :
 sig
  type mask =
  | IsNul
  | IsPos of Big_int_Z.big_int
  | IsNeg
 end

module Coq_Pos :
 sig
  val succ : Big_int_Z.big_int -> Big_int_Z.big_int

  val add : Big_int_Z.big_int -> Big_int_Z.big_int -> Big_int_Z.big_int

  val add_carry : Big_int_Z.big_int -> Big_int_Z.big_int -> Big_int_Z.big_int

  val pred_double : Big_int_Z.big_int -> Big_int_Z.big_int

  type mask = Pos.mask =
  | IsNul
  | IsPos of Big_int_Z.big_int
  | IsNeg

  val succ_double_mask : mask -> mask

  val double_mask : mask -> mask

  val double_pred_mask : Big_int_Z.big_int -> mask

  val sub_mask : Big_int_Z.big_int -> Big_int_Z.big_int -> mask

  val sub_mask_carry : Big_int_Z.big_int -> Big_int_Z.big_int -> mask

  val sub : Big_int_Z.big_int -> Big_int_Z.big_int -> Big_int_Z.big_int

  val mul : Big_int_Z.big_int -> Big_int_Z.big_int -> Big_int_Z.big_int

  val iter : ('a1 -> 'a1) -> 'a1 -> Big_int_Z.big_int -> 'a1

  val pow : Big_int_Z.big_int -> Big_int_Z.big_int -> Big_int_Z.big_int

  val size_nat : Big_int_Z.big_int -> nat

  val compare_cont :
    comparison -> Big_int_Z.big_int -> Big_int_Z.big_int -> comparison

  val compare : Big_int_Z.big_int -> Big_int_Z.big_int -> comparison

  val eqb : Big_int_Z.big_int -> Big_int_Z.big_int -> bool

  val ggcdn :
    nat -> Big_int_Z.big_int -> Big_int_Z.big_int ->
    Big_int_Z.big_int * (Big_int_Z.big_int * Big_int_Z.big_int)

  val ggcd :
    Big_int_Z.big_int -> Big_int_Z.big_int ->
    Big_int_Z.big_int * (Big_int_Z.big_int * Big_int_Z.big_int)

  val iter_op : ('a1 -> 'a1 -> 'a1) -> Big_int_Z.big_int -> 'a1 -> 'a1

  val to_nat : Big_int_Z.big_int -> nat

  val of_succ_nat : nat -> Big_int_Z.big_int

  val to_little_uint : Big_int_Z.big_int -> uint

  val to_uint : Big_int_Z.big_int -> uint
 end

module N :
 sig
  val add : Big_int_Z.big_int -> Big_int_Z.big_int -> Big_int_Z.big_int

  val mul : Big_int_Z.big_int -> Big_int_Z.big_int -> Big_int_Z.big_int

  val compare : Big_int_Z.big_int -> Big_int_Z.big_int -> comparison

  val to_nat : Big_int_Z.big_int -> nat

  val of_nat : nat -> Big_int_Z.big_int
 end

val zero : char

val one : char

val shift : bool -> char -> char

val ascii_of_pos : Big_int_Z.big_int -> char

val ascii_of_N : Big_int_Z.big_int -> char

val ascii_of_nat : nat -> char

val n_of_digits : bool list -> Big_int_Z.big_int

val n_of_ascii : char -> Big_int_Z.big_int

val nat_of_ascii : char -> nat

val compare0 : char -> char -> comparison

val hd : 'a1 -> 'a1 list -> 'a1

val hd_error : 'a1 list -> 'a1 option

val nth_error : 'a1 list -> nat -> 'a1 option

val rev0 : 'a1 list -> 'a1 list

val concat : 'a1 list list -> 'a1 list

val map : ('a1 -> 'a2) -> 'a1 list -> 'a2 list

val flat_map : ('a1 -> 'a2 list) -> 'a1 list -> 'a2 list

val fold_left : ('a1 -> 'a2 -> 'a1) -> 'a2 list -> 'a1 -> 'a1

val fold_right : ('a2 -> 'a1 -> 'a1) -> 'a1 -> 'a2 list -> 'a1

val existsb : ('a1 -> bool) -> 'a1 list -> bool

val forallb : ('a1 -> bool) -> 'a1 list -> bool

val filter : ('a1 -> bool) -> 'a1 list -> 'a1 list

val find : ('a1 -> bool) -> 'a1 list -> 'a1 option

val firstn : nat -> 'a1 list -> 'a1 list

val skipn : nat -> 'a1 list -> 'a1 list

val seq : nat -> nat -> nat list

module Z :
 sig
  val double : Big_int_Z.big_int -> Big_int_Z.big_int

  val succ_double : Big_int_Z.big_int -> Big_int_Z.big_int

  val pred_double : Big_int_Z.big_int -> Big_int_Z.big_int

  val pos_sub : Big_int_Z.big_int -> Big_int_Z.big_int -> Big_int_Z.big_int

  val add : Big_int_Z.big_int -> Big_int_Z.big_int -> Big_int_Z.big_int

  val opp : Big_int_Z.big_int -> Big_int_Z.big_int

  val sub : Big_int_Z.big_int -> Big_int_Z.big_int -> Big_int_Z.big_int

  val mul : Big_int_Z.big_int -> Big_int_Z.big_int -> Big_int_Z.big_int

  val pow_pos : Big_int_Z.big_int -> Big_int_Z.big_int -> Big_int_Z.big_int

  val pow : Big_int_Z.big_int -> Big_int_Z.big_int -> Big_int_Z.big_int

  val compare : Big_int_Z.big_int -> Big_int_Z.big_int -> comparison

  val sgn : Big_int_Z.big_int -> Big_int_Z.big_int

  val leb : Big_int_Z.big_int -> Big_int_Z.big_int -> bool

  val ltb : Big_int_Z.big_int -> Big_int_Z.big_int -> bool

  val eqb : Big_int_Z.big_int -> Big_int_Z.big_int -> bool

  val abs : Big_int_Z.big_int -> Big_int_Z.big_int

  val to_nat : Big_int_Z.big_int -> nat

  val to_N : Big_int_Z.big_int -> Big_int_Z.big_int

  val of_nat : nat -> Big_int_Z.big_int

  val of_N : Big_int_Z.big_int -> Big_int_Z.big_int

  val to_pos : Big_int_Z.big_int -> Big_int_Z.big_int

  val to_int : Big_int_Z.big_int -> signed_int

  val pos_div_eucl :
    Big_int_Z.big_int -> Big_int_Z.big_int ->
    Big_int_Z.big_int * Big_int_Z.big_int

  val div_eucl :
    Big_int_Z.big_int -> Big_int_Z.big_int ->
    Big_int_Z.big_int * Big_int_Z.big_int

  val div : Big_int_Z.big_int -> Big_int_Z.big_int -> Big_int_Z.big_int

  val modulo : Big_int_Z.big_int -> Big_int_Z.big_int -> Big_int_Z.big_int

  val ggcd :
    Big_int_Z.big_int -> Big_int_Z.big_int ->
    Big_int_Z.big_int * (Big_int_Z.big_int * Big_int_Z.big_int)
 end

val zeq_bool : Big_int_Z.big_int -> Big_int_Z.big_int -> bool

val compare1 : string -> string -> comparison

val length0 : string -> nat



type q = { qnum : Big_int_Z.big_int; qden : Big_int_Z.big_int }

val inject_Z : Big_int_Z.big_int -> q

val qcompare : q -> q -> comparison

val qeq_bool : q -> q -> bool

val qplus : q -> q -> q

val qmult : q -> q -> q

val qopp : q -> q

val qminus : q -> q -> q

val qinv : q -> q

val qdiv : q -> q -> q

val qred : q -> q

type exn =
| ZeroDivisionError
| ValueError
| IndexError
| TypeError
| AttributeError
| AssertionError
| KeyError
| UnboundLocalError
| OverflowError
| NotImplementedErr
| UsageError
| ElectionError
| ElectionProfileError
| ArithmeticValuesError

type 'a res =
| Ok of 'a
| Raise of exn

val bind : 'a1 res -> ('a1 -> 'a2 res) -> 'a2 res

type operand =
| OInt of Big_int_Z.big_int
| OVal of Big_int_Z.big_int

val operand_raw : operand -> Big_int_Z.big_int

val operand_value : operand -> Big_int_Z.big_int res

val res_true : bool res -> bool

type rnd =
| RUp
| RDown
| RNone
| ROther

val rnd_eqb : rnd -> rnd -> bool

val rnd_in : rnd -> rnd list -> bool

val pydiv : Big_int_Z.big_int -> Big_int_Z.big_int -> Big_int_Z.big_int res

val pymod : Big_int_Z.big_int -> Big_int_Z.big_int -> Big_int_Z.big_int res

val pydivmod :
  Big_int_Z.big_int -> Big_int_Z.big_int ->
  (Big_int_Z.big_int * Big_int_Z.big_int) res

val truthy : Big_int_Z.big_int -> bool

val py_min_by : ('a1 -> 'a1 -> bool) -> 'a1 list -> 'a1 res

type fixed_cls = { f_precision : Big_int_Z.big_int;
                   f_display : Big_int_Z.big_int;
                   f_scale : Big_int_Z.big_int; f_scaled : Big_int_Z.big_int;
                   f_scaledd : Big_int_Z.big_int;
                   f_scaledr : Big_int_Z.big_int }

type guarded_cls = { g_precision : Big_int_Z.big_int;
                     g_guard : Big_int_Z.big_int;
                     g_display : Big_int_Z.big_int;
                     g_scale : Big_int_Z.big_int;
                     g_scalep : Big_int_Z.big_int;
                     g_scaleg : Big_int_Z.big_int;
                     g_scaled : Big_int_Z.big_int;
                     g_scaledd : Big_int_Z.big_int;
                     g_scaledr : Big_int_Z.big_int;
                     g_scaledg : Big_int_Z.big_int; g_geps : Big_int_Z.big_int }

type fmt_args =
| Fmt2 of Big_int_Z.big_int * Big_int_Z.big_int
| Fmt3 of Big_int_Z.big_int * Big_int_Z.big_int * Big_int_Z.big_int
| FmtInt of Big_int_Z.big_int
| FmtNeg of fmt_args

module NilEmpty :
 sig
  val string_of_uint : uint -> string
 end

module NilZero :
 sig
  val string_of_uint : uint -> string

  val string_of_int : signed_int -> string
 end

val string_of_Z : Big_int_Z.big_int -> string

val zeros : nat -> string

val pad0 : Big_int_Z.big_int -> Big_int_Z.big_int -> string

val render_fmt : Big_int_Z.big_int -> Big_int_Z.big_int -> fmt_args -> string

val digit_of : char -> Big_int_Z.big_int option

val qfloor : q -> Big_int_Z.big_int

val init_r : fixed_cls -> operand -> bool -> Big_int_Z.big_int res

val init : fixed_cls -> operand -> bool -> Big_int_Z.big_int

val dunder_add :
  fixed_cls -> Big_int_Z.big_int -> operand -> Big_int_Z.big_int res

val dunder_sub :
  fixed_cls -> Big_int_Z.big_int -> operand -> Big_int_Z.big_int res

val dunder_neg : fixed_cls -> Big_int_Z.big_int -> Big_int_Z.big_int res

val dunder_pos : fixed_cls -> Big_int_Z.big_int -> Big_int_Z.big_int res

val dunder_bool : fixed_cls -> Big_int_Z.big_int -> bool res

val dunder_abs : fixed_cls -> Big_int_Z.big_int -> Big_int_Z.big_int res

val dunder_mul :
  fixed_cls -> Big_int_Z.big_int -> operand -> Big_int_Z.big_int res

val dunder_floordiv :
  fixed_cls -> Big_int_Z.big_int -> operand -> Big_int_Z.big_int res

val mul0 : fixed_cls -> operand -> operand -> rnd -> Big_int_Z.big_int res

val div0 : fixed_cls -> operand -> operand -> rnd -> Big_int_Z.big_int res

val muldiv :
  fixed_cls -> operand -> operand -> operand -> rnd -> Big_int_Z.big_int res

val dunder_eq : fixed_cls -> Big_int_Z.big_int -> operand -> bool res

val dunder_ne : fixed_cls -> Big_int_Z.big_int -> operand -> bool res

val dunder_lt : fixed_cls -> Big_int_Z.big_int -> operand -> bool res

val dunder_le : fixed_cls -> Big_int_Z.big_int -> operand -> bool res

val dunder_gt : fixed_cls -> Big_int_Z.big_int -> operand -> bool res

val dunder_ge : fixed_cls -> Big_int_Z.big_int -> operand -> bool res

val min : fixed_cls -> Big_int_Z.big_int list -> Big_int_Z.big_int res

val dunder_str : fixed_cls -> Big_int_Z.big_int -> fmt_args res

val dunder_truediv :
  fixed_cls -> Big_int_Z.big_int -> operand -> Big_int_Z.big_int res

val init_r0 : guarded_cls -> operand -> bool -> Big_int_Z.big_int res

val init0 : guarded_cls -> operand -> bool -> Big_int_Z.big_int

val dunder_add0 :
  guarded_cls -> Big_int_Z.big_int -> operand -> Big_int_Z.big_int res

val dunder_sub0 :
  guarded_cls -> Big_int_Z.big_int -> operand -> Big_int_Z.big_int res

val dunder_neg0 : guarded_cls -> Big_int_Z.big_int -> Big_int_Z.big_int res

val dunder_pos0 : guarded_cls -> Big_int_Z.big_int -> Big_int_Z.big_int res

val dunder_bool0 : guarded_cls -> Big_int_Z.big_int -> bool res

val dunder_abs0 : guarded_cls -> Big_int_Z.big_int -> Big_int_Z.big_int res

val dunder_mul0 :
  guarded_cls -> Big_int_Z.big_int -> operand -> Big_int_Z.big_int res

val dunder_floordiv0 :
  guarded_cls -> Big_int_Z.big_int -> operand -> Big_int_Z.big_int res

val mul1 : guarded_cls -> operand -> operand -> rnd -> Big_int_Z.big_int res

val div1 : guarded_cls -> operand -> operand -> rnd -> Big_int_Z.big_int res

val muldiv0 :
  guarded_cls -> operand -> operand -> operand -> rnd -> Big_int_Z.big_int res

val dunder_cmp :
  guarded_cls -> Big_int_Z.big_int -> operand -> Big_int_Z.big_int res

val dunder_eq0 : guarded_cls -> Big_int_Z.big_int -> operand -> bool res

val dunder_ne0 : guarded_cls -> Big_int_Z.big_int -> operand -> bool res

val dunder_lt0 : guarded_cls -> Big_int_Z.big_int -> operand -> bool res

val dunder_le0 : guarded_cls -> Big_int_Z.big_int -> operand -> bool res

val dunder_gt0 : guarded_cls -> Big_int_Z.big_int -> operand -> bool res

val dunder_ge0 : guarded_cls -> Big_int_Z.big_int -> operand -> bool res

val min0 : guarded_cls -> Big_int_Z.big_int list -> Big_int_Z.big_int res

val dunder_str0 : guarded_cls -> Big_int_Z.big_int -> fmt_args res

val dunder_hash : guarded_cls -> Big_int_Z.big_int -> Big_int_Z.big_int res

val dunder_truediv0 :
  guarded_cls -> Big_int_Z.big_int -> operand -> Big_int_Z.big_int res

val unres : 'a1 -> 'a1 res -> 'a1

type arith = { of_int : (Big_int_Z.big_int -> __); add0 : (__ -> __ -> __);
               sub0 : (__ -> __ -> __); mulv : (__ -> __ -> __);
               divv : (__ -> __ -> __ res); floordivv : (__ -> __ -> __ res);
               kmul : (__ -> __ -> bool -> __);
               kdiv : (__ -> __ -> bool -> __ res);
               kmuldiv : (__ -> __ -> __ -> bool -> __ res);
               eqv : (__ -> __ -> bool); ltv : (__ -> __ -> bool);
               lev : (__ -> __ -> bool); gtv : (__ -> __ -> bool);
               gev : (__ -> __ -> bool); truth : (__ -> bool);
               vmin : (__ -> __ list -> __); epsilon : __; exact : bool;
               str : (__ -> string); raw_repr : (__ -> string) }

type t = __

val rnd_of : bool -> rnd

type arith_meta = { aname : string; ainfo : string;
                    areport : (string -> string -> string) }

val nev : arith -> t -> t -> bool

val fixed_display :
  Big_int_Z.big_int -> Big_int_Z.big_int -> Big_int_Z.big_int

val mk_fixed_cls : Big_int_Z.big_int -> Big_int_Z.big_int -> fixed_cls

val fixed_str : fixed_cls -> Big_int_Z.big_int -> string

val fixed_info : Big_int_Z.big_int -> Big_int_Z.big_int -> string

val fixed : Big_int_Z.big_int -> Big_int_Z.big_int -> arith

val fixedMeta : Big_int_Z.big_int -> Big_int_Z.big_int -> arith_meta

val mk_guarded_cls :
  Big_int_Z.big_int -> Big_int_Z.big_int -> Big_int_Z.big_int ->
  Big_int_Z.big_int -> guarded_cls

val guarded_str : guarded_cls -> Big_int_Z.big_int -> string

val guarded_info :
  Big_int_Z.big_int -> Big_int_Z.big_int -> Big_int_Z.big_int -> string

val tab : string

val nl : string

val guarded_report : guarded_cls -> string -> string -> string

val guarded :
  Big_int_Z.big_int -> Big_int_Z.big_int -> Big_int_Z.big_int ->
  Big_int_Z.big_int -> arith

val guardedMeta :
  Big_int_Z.big_int -> Big_int_Z.big_int -> Big_int_Z.big_int ->
  Big_int_Z.big_int -> arith_meta

val qz : q -> bool

val q_div : q -> q -> q res

val q_floordiv : q -> q -> q res

val q_lt : q -> q -> bool

val q_le : q -> q -> bool

val rational_fmt : Big_int_Z.big_int -> q -> fmt_args

val rational_str : Big_int_Z.big_int -> q -> string

val rational : Big_int_Z.big_int -> arith

val rationalMeta : arith_meta

val run_asc : ('a1 -> 'a1 -> bool) -> 'a1 -> 'a1 list -> nat

val run_desc : ('a1 -> 'a1 -> bool) -> 'a1 -> 'a1 list -> nat

val bsearch :
  ('a1 -> 'a1 -> bool) -> nat -> 'a1 list -> 'a1 -> nat -> nat -> nat

val insert_at : 'a1 list -> nat -> 'a1 -> 'a1 list

val binsort : ('a1 -> 'a1 -> bool) -> 'a1 list -> 'a1 list -> 'a1 list

val py_sort : ('a1 -> 'a1 -> bool) -> 'a1 list -> 'a1 list

val py_sorted : ('a1 -> 'a1 -> bool) -> bool -> 'a1 list -> 'a1 list

type ctl =
| Next
| Brk
| Cont
| Abort

type 'st cmd =
| Do of ('st -> 'st)
| Seq of 'st cmd * 'st cmd
| Ite of ('st -> bool) * 'st cmd * 'st cmd
| While of ('st -> bool) * 'st cmd
| Break
| Continue
| Skip

val iter_once :
  ('a1 -> ('a1 * ctl) option) -> ('a1 -> bool) -> 'a1 -> (('a1 * bool) * ctl)
  option

val loopP :
  ('a1 -> ('a1 * ctl) option) -> ('a1 -> bool) -> Big_int_Z.big_int -> 'a1 ->
  (('a1 * bool) * ctl) option

val exec :
  ('a1 -> bool) -> Big_int_Z.big_int -> 'a1 cmd -> 'a1 -> ('a1 * ctl) option

type cstate =
| Hopeful
| Elected
| Defeated
| Withdrawn

val cstate_eqb : cstate -> cstate -> bool

type meth =
| MWigm
| MMeek
| MQpq

type tag =
| TBegin
| TCount
| TLog
| TRound
| TTie
| TElect
| TDefeat
| TIterate
| TUnpend
| TTransfer
| TEnd

type cand = { cid : Big_int_Z.big_int; corder : Big_int_Z.big_int;
              ctie : Big_int_Z.big_int; cname : string; cnick : string;
              cundecl : bool; cst : cstate; cpend : bool option; cvote : 
              t; ckf : t option; cquo : t option; ctc : t }

val with_st : arith -> cand -> cstate -> bool option -> cand

val with_vote : arith -> cand -> t -> cand

val with_kf : arith -> cand -> t option -> cand

val with_quo : arith -> cand -> t option -> cand

val with_tc : arith -> cand -> t -> cand

type ballot = { bmult : t; bidx : nat; bweight : t; bres : t;
                brank : Big_int_Z.big_int list }

val with_bidx : arith -> ballot -> nat -> ballot

val with_bweight : arith -> ballot -> t -> ballot

val with_bres : arith -> ballot -> t -> ballot

type eballot = { emult : t; eres : t; erank : Big_int_Z.big_int list list }

type csnap = { sn_cid : Big_int_Z.big_int; sn_st : cstate;
               sn_pend : bool option; sn_vote : t; sn_kf : t option;
               sn_quo : t option }

type asnap = { as_c : csnap list; as_votes : t; as_quota : t;
               as_nt : t option; as_surplus : t option;
               as_ballots : (nat * t) list }

type action = { a_tag : tag; a_msg : string; a_round : Big_int_Z.big_int;
                a_snap : asnap option }

type est = { cands : cand list; ballots : ballot list;
             eballots : eballot list; quota : t; surplus : t; votes : 
             t; exhausted : t; residual : t; round : Big_int_Z.big_int;
             rounds : cand list list; actions : action list;
             crash : exn option; lv_flag : bool; lv_last : t;
             lv_status : Big_int_Z.big_int;
             lv_batch : Big_int_Z.big_int list; lv_tx : t; lv_va : t }

val set_cands : arith -> est -> cand list -> est

val set_ballots : arith -> est -> ballot list -> est

val set_eballots : arith -> est -> eballot list -> est

val set_quota : arith -> est -> t -> est

val set_surplus : arith -> est -> t -> est

val set_votes : arith -> est -> t -> est

val set_exhausted : arith -> est -> t -> est

val set_residual : arith -> est -> t -> est

val set_round : arith -> est -> Big_int_Z.big_int -> est

val set_rounds : arith -> est -> cand list list -> est

val set_actions : arith -> est -> action list -> est

val set_crash : arith -> est -> exn -> est

val set_flag : arith -> est -> bool -> est

val set_last : arith -> est -> t -> est

val set_status : arith -> est -> Big_int_Z.big_int -> est

val set_batch : arith -> est -> Big_int_Z.big_int list -> est

val set_txva : arith -> est -> t -> t -> est

val crashed : arith -> est -> bool

val in_state : arith -> cstate -> cand -> bool

val is_pending : arith -> cand -> bool

val hopefuls : arith -> est -> cand list

val electeds : arith -> est -> cand list

val defeateds : arith -> est -> cand list

val withdrawns : arith -> est -> cand list

val eligibles : arith -> est -> cand list

val pendings : arith -> est -> cand list

val nlen : 'a1 list -> Big_int_Z.big_int

val find_cand : arith -> cand list -> Big_int_Z.big_int -> cand option

val upd_cand :
  arith -> Big_int_Z.big_int -> (cand -> cand) -> cand list -> cand list

val upd : arith -> est -> Big_int_Z.big_int -> (cand -> cand) -> est

val vote_key_lt : arith -> cand -> cand -> bool

val by_vote : arith -> bool -> cand list -> cand list

val by_tie : arith -> cand list -> cand list

val by_order : arith -> cand list -> cand list

val vsum : arith -> t list -> t

val top_rank : arith -> ballot -> Big_int_Z.big_int option

val b_exhausted : arith -> ballot -> bool

val bvote : arith -> ballot -> t

type config = { cf_rule : string; cf_method : meth;
                cf_nseats : Big_int_Z.big_int;
                cf_nballots : Big_int_Z.big_int; cf_integer_quota : bool;
                cf_batch_zero : bool; cf_batch : bool; cf_warren : bool;
                cf_omega10 : Big_int_Z.big_int }

val v0 : arith -> t

val v1 : arith -> t

val seats_left : arith -> config -> est -> Big_int_Z.big_int

val csnap_of : arith -> cand -> csnap

val snap_of : arith -> config -> est -> asnap

val is_log : tag -> bool

val is_round : tag -> bool

val log_action : arith -> config -> tag -> string -> est -> est

val log_msg : arith -> config -> string -> est -> est

val new_round : arith -> config -> est -> est

val elect :
  arith -> config -> Big_int_Z.big_int -> string -> bool -> est -> est

val elect_default : arith -> config -> Big_int_Z.big_int -> bool -> est -> est

val defeat : arith -> config -> Big_int_Z.big_int -> string -> est -> est

val unpend :
  arith -> config -> Big_int_Z.big_int -> string option -> est -> est

val unelect : arith -> Big_int_Z.big_int -> est -> est

val set_vote : arith -> Big_int_Z.big_int -> t -> est -> est

val add_vote : arith -> Big_int_Z.big_int -> t -> est -> est

val cvote_of : arith -> est -> Big_int_Z.big_int -> t

val cname_of : arith -> est -> Big_int_Z.big_int -> string

val join : string -> string list -> string

val names : arith -> cand list -> string

val break_tie :
  arith -> config -> (string -> string -> string) -> cand list -> est ->
  est * Big_int_Z.big_int option

val tie_fmt : string -> string -> string -> string

val max_vote : arith -> cand list -> t option

val min_vote : arith -> cand list -> t option

val advance_from :
  (Big_int_Z.big_int -> bool) -> Big_int_Z.big_int list -> nat -> nat

val cont_pred : arith -> (cand -> bool) -> est -> Big_int_Z.big_int -> bool

val transfer : arith -> (cand -> bool) -> est -> ballot -> est * ballot

val process_ballots :
  arith -> (est -> ballot -> est * ballot) -> (ballot -> bool) -> ballot list
  -> est -> ballot list -> est * ballot list

val for_ballots :
  arith -> (est -> ballot -> est * ballot) -> (ballot -> bool) -> est -> est

val top_is : arith -> Big_int_Z.big_int -> ballot -> bool

val top_in : arith -> Big_int_Z.big_int list -> ballot -> bool

val reweigh_transfer :
  arith -> (cand -> bool) -> (t -> t -> t -> t res) -> Big_int_Z.big_int -> t
  -> est -> ballot -> est * ballot

val rew_wigm : arith -> t -> t -> t -> t res

val rew_scot : arith -> t -> t -> t -> t res

val initial_count : arith -> est -> est

val is_hopeful : arith -> cand -> bool

val elect_with_quota :
  arith -> config -> (est -> cand -> bool) -> (est -> cand -> bool) -> string
  option -> (cand -> bool) -> est -> est

val ge_quota : arith -> est -> cand -> bool

val has_quota_exact : arith -> est -> cand -> bool

val transfer_high_surplus :
  arith -> config -> (cand list -> est -> est * Big_int_Z.big_int option) ->
  (t -> t -> t -> t res) -> est -> est

val transfer_defeated_one : arith -> config -> Big_int_Z.big_int -> est -> est

val low_candidates : arith -> est -> (t * cand list) option

val defeat_low :
  arith -> config -> (cand list -> est -> est * Big_int_Z.big_int option) ->
  string -> est -> est

val unpend_all : arith -> config -> est -> est

val elect_or_defeat_remaining : arith -> config -> est -> est

val group_tied :
  arith -> t -> cand list -> t -> cand list -> cand list list -> cand list
  list

val scan_groups :
  arith -> t -> Big_int_Z.big_int -> cand list list -> t -> Big_int_Z.big_int
  -> nat -> nat option -> nat option

val batch_defeat : arith -> config -> t -> est -> cand list

val nonempty : 'a1 list -> bool

val guard_main : arith -> config -> est -> bool

val bt_simple :
  arith -> config -> string -> cand list -> est -> est * Big_int_Z.big_int
  option

val droop_quota_eps : arith -> config -> t res

val integer_droop_quota : arith -> config -> t

val start_count : arith -> t res -> est -> est

val cands_of : arith -> est -> Big_int_Z.big_int list -> cand list

val transfer_batch : arith -> config -> (cand -> bool) -> est -> est

val wigm_quota : arith -> config -> t res

val wigm_defeat : arith -> config -> est -> est

val wigm : arith -> config -> est cmd

val pending_surplus : arith -> est -> t

val prf_find_batch : arith -> config -> est -> est

val defeat_batch_in_ballot_order : arith -> config -> string -> est -> est

val wigm_prf : arith -> config -> est cmd

val count_complete : arith -> config -> est -> bool

val scot_stage_pick :
  arith -> bool -> Big_int_Z.big_int list -> cand list -> cand option

val scot_search :
  arith -> bool -> Big_int_Z.big_int list -> cand list list -> cand option

val scot_break_tie :
  arith -> config -> bool -> string -> cand list -> est ->
  est * Big_int_Z.big_int option

val cand_surplus : arith -> est -> cand -> t

val scotland : arith -> config -> est cmd

val gt_quota : arith -> est -> cand -> bool

val cfer_scan :
  arith -> config -> est -> t -> Big_int_Z.big_int -> cand list -> t -> cand
  list -> cand list -> cand list -> cand list

val cfer_batch : arith -> config -> est -> cand list

val cfer_find_batch : arith -> config -> est -> est

val cfer_transfer_all_pending : arith -> config -> est -> est

val cfer_defeat_low : arith -> config -> est -> est

val cfer : arith -> config -> est cmd

val mpls_keep : arith -> cand -> bool

val mpls_surplus : arith -> bool -> est -> t

val hopeful_with_quota : arith -> bool -> est -> cand list

val mpls_scan :
  arith -> t -> Big_int_Z.big_int -> cand list -> t -> cand list -> cand list
  -> cand list

val find_certain_losers : arith -> config -> t -> est -> cand list

val ballot_top_undeclared : arith -> est -> ballot -> bool option

val mpls_find_defeats : arith -> config -> est -> est

val mpls_defeat_batch : arith -> config -> est -> est

val mpls_elect_high : arith -> config -> est -> est

val mpls_defeat_low : arith -> config -> est -> est

val mpls : arith -> config -> est cmd

val nonempty' : 'a1 list -> bool

val iS_none : Big_int_Z.big_int

val iS_omega : Big_int_Z.big_int

val iS_batch : Big_int_Z.big_int

val iS_elected : Big_int_Z.big_int

val iS_stable : Big_int_Z.big_int

val iS_iterate : Big_int_Z.big_int

val status_name : Big_int_Z.big_int -> string

val count_complete_m : arith -> config -> est -> bool

val omega : arith -> config -> t res

val omega_or0 : arith -> config -> t

val kf_truthy : arith -> cand -> bool

val kf_of : arith -> cand -> t

val he_cands : arith -> est -> cand list

val zero_he_votes : arith -> est -> est

val kw_warren : arith -> t -> t -> t * t

val kw_meek : arith -> t -> t -> t * t

val kt : arith -> config -> t -> t -> t * t

val dist_ballot :
  arith -> config -> cand list -> t -> Big_int_Z.big_int list -> t -> t ->
  (cand list * t) * t

val dist_eq :
  arith -> config -> Big_int_Z.big_int list -> t -> Big_int_Z.big_int list
  list -> t -> (cand list * t) res -> (cand list * t) res

val distribute_votes : arith -> config -> est -> est

val meek_quota : arith -> config -> est -> t res

val set_quota_r : arith -> est -> t res -> est

val elected_surplus : arith -> est -> t

val update_kfs : arith -> bool -> est -> est

val meek_iter_head : arith -> config -> est -> est

val meek_iterate : arith -> config -> est cmd

val zero_cand : arith -> Big_int_Z.big_int -> est -> est

val cands_of' : arith -> est -> Big_int_Z.big_int list -> cand list

val meek_defeat_batch : arith -> config -> est -> est

val low_within_surplus : arith -> est -> cand list res

val meek_defeat_low :
  arith -> config -> (string -> string -> string) -> bool -> est -> est

val meek_final : arith -> config -> bool -> est -> est

val init_kfs : arith -> est -> est

val meek_first_prefs : arith -> est -> est

val meek : arith -> config -> est cmd

val dist_ballot_prf :
  arith -> cand list -> t -> Big_int_Z.big_int list -> t -> t -> (cand
  list * t) * t

val prf_distribute : arith -> est -> est

val prf_quota : arith -> config -> est -> t res

val prf_iterate_step : arith -> config -> est -> est

val meek_prf : arith -> config -> est cmd

val qpq_quota : arith -> config -> est -> t res

val count_complete_q : arith -> config -> est -> bool

val qpq_advance : arith -> est -> ballot -> ballot

val qpq_restart : arith -> est -> est

val qpq_tally : arith -> config -> est -> est

val quo_of : arith -> cand -> t

val max_quo : arith -> cand list -> t option

val min_quo : arith -> cand list -> t option

val qpq_tie : string -> string -> string -> string

val qpq_step : arith -> config -> est -> est

val qpq : arith -> config -> est cmd

type pcand = { pc_cid : Big_int_Z.big_int; pc_order : Big_int_Z.big_int;
               pc_tie : Big_int_Z.big_int; pc_name : string;
               pc_nick : string; pc_withdrawn : bool; pc_undeclared : 
               bool }

type profile = { pr_nseats : Big_int_Z.big_int;
                 pr_nballots : Big_int_Z.big_int; pr_cands : pcand list;
                 pr_ballots : (Big_int_Z.big_int * Big_int_Z.big_int list)
                              list;
                 pr_eballots : (Big_int_Z.big_int * Big_int_Z.big_int list
                               list) list }

type rule =
| RWigm
| RWigmPrf
| RScotland
| RCfer
| RMpls
| RMeek
| RMeekPrf
| RQpq

type outcome =
| Done of est * bool
| Crashed of est * exn
| OutOfFuel

val v0' : arith -> t

val init_cand : arith -> pcand -> cand

val init_state : arith -> config -> profile -> est

val rule_cmd : arith -> config -> rule -> est cmd

val count_cmd : arith -> config -> rule -> est cmd

val post_check : arith -> config -> est -> bool

val run_count :
  arith -> config -> Big_int_Z.big_int -> rule -> profile -> outcome

type tok =
| TI of Big_int_Z.big_int
| TS of string

val exn_name : exn -> string

val space_ranges : (Big_int_Z.big_int * Big_int_Z.big_int) list

val linebreak_ranges : (Big_int_Z.big_int * Big_int_Z.big_int) list

val digit_ranges :
  ((Big_int_Z.big_int * Big_int_Z.big_int) * Big_int_Z.big_int) list

val int_max_str_digits : Big_int_Z.big_int

type ustr = Big_int_Z.big_int list

val in_ranges :
  Big_int_Z.big_int -> (Big_int_Z.big_int * Big_int_Z.big_int) list -> bool

val digit_in :
  Big_int_Z.big_int ->
  ((Big_int_Z.big_int * Big_int_Z.big_int) * Big_int_Z.big_int) list ->
  Big_int_Z.big_int option

val is_space : Big_int_Z.big_int -> bool

val is_linebreak : Big_int_Z.big_int -> bool

val digit_value : Big_int_Z.big_int -> Big_int_Z.big_int option

val is_digit : Big_int_Z.big_int -> bool

val ustr_eqb : ustr -> ustr -> bool

val starts_with : ustr -> ustr -> bool

val ends_with : ustr -> ustr -> bool

val lstrip_c : Big_int_Z.big_int -> ustr -> ustr

val rstrip_c : Big_int_Z.big_int -> ustr -> ustr

val strip_c : Big_int_Z.big_int -> ustr -> ustr

val split_on_aux : Big_int_Z.big_int -> ustr -> ustr -> ustr list

val split_on : Big_int_Z.big_int -> ustr -> ustr list

val flush : ustr -> ustr list

val split_ws_aux : ustr -> ustr -> ustr list

val split_ws : ustr -> ustr list

val splitlines_aux : ustr -> ustr -> ustr list

val splitlines : ustr -> ustr list

val cQUOTE : Big_int_Z.big_int

val cHASH : Big_int_Z.big_int

val cLPAR : Big_int_Z.big_int

val cRPAR : Big_int_Z.big_int

val cSTAR : Big_int_Z.big_int

val cMINUS : Big_int_Z.big_int

val cSLASH : Big_int_Z.big_int

val cZERO : Big_int_Z.big_int

val cEQ : Big_int_Z.big_int

val cLBRK : Big_int_Z.big_int

val cRBRK : Big_int_Z.big_int

val cSP : Big_int_Z.big_int

val all_digits : ustr -> bool

val is_sdigits : ustr -> bool

val digit_or0 : Big_int_Z.big_int -> Big_int_Z.big_int

val int_of_digits : ustr -> Big_int_Z.big_int

val py_int : ustr -> Big_int_Z.big_int res

val p_int : ustr -> Big_int_Z.big_int res

val zmem : Big_int_Z.big_int -> Big_int_Z.big_int list -> bool

val zset_add :
  Big_int_Z.big_int -> Big_int_Z.big_int list -> Big_int_Z.big_int list

val zmap_set :
  Big_int_Z.big_int -> 'a1 -> (Big_int_Z.big_int * 'a1) list ->
  (Big_int_Z.big_int * 'a1) list

val smap_get :
  ustr -> (ustr * Big_int_Z.big_int) list -> Big_int_Z.big_int option

val smem : ustr -> ustr list -> bool

val has_dup : Big_int_Z.big_int list -> bool

type tk_act =
| TYield
| TSkip
| TBreak

val tok_step :
  ustr -> Big_int_Z.big_int -> bool -> (tk_act * Big_int_Z.big_int) * bool

val tok_line :
  ustr list -> Big_int_Z.big_int -> bool -> (ustr
  list * Big_int_Z.big_int) * bool

val tok_lines : ustr list -> Big_int_Z.big_int -> bool -> ustr list

val tokenize : ustr -> ustr list

type 'a pres =
| POk of 'a
| PStop
| PRaise of exn

val pbind : 'a1 pres -> ('a1 -> 'a2 pres) -> 'a2 pres

val lift : 'a1 res -> 'a1 pres

val ePE : 'a1 pres

type pst = { s_nCand : Big_int_Z.big_int; s_nSeats : Big_int_Z.big_int;
             s_withdrawn : Big_int_Z.big_int list;
             s_undeclared : Big_int_Z.big_int list;
             s_tieOrder : (Big_int_Z.big_int * Big_int_Z.big_int) list;
             s_nickName : (Big_int_Z.big_int * ustr) list;
             s_nickCid : (ustr * Big_int_Z.big_int) list;
             s_options : ustr list; s_nBallots : Big_int_Z.big_int;
             s_lines : (Big_int_Z.big_int * Big_int_Z.big_int list) list;
             s_linesEq : (Big_int_Z.big_int * Big_int_Z.big_int list list)
                         list; s_ballotIDs : ustr list }

val init_pst : Big_int_Z.big_int -> Big_int_Z.big_int -> pst

val set_withdrawn : pst -> Big_int_Z.big_int list -> pst

val set_undeclared : pst -> Big_int_Z.big_int list -> pst

val set_tie : pst -> (Big_int_Z.big_int * Big_int_Z.big_int) list -> pst

val set_nick :
  pst -> (Big_int_Z.big_int * ustr) list -> (ustr * Big_int_Z.big_int) list
  -> pst

val set_options : pst -> ustr list -> pst

val add_line : pst -> Big_int_Z.big_int -> Big_int_Z.big_int list -> pst

val add_lineEq :
  pst -> Big_int_Z.big_int -> Big_int_Z.big_int list list -> pst

val add_ballotID : pst -> ustr -> pst

val getCid : pst -> ustr -> Big_int_Z.big_int res

val map_res : ('a1 -> 'a2 res) -> 'a1 list -> 'a2 list res

val tie_loop :
  pst -> ustr list -> Big_int_Z.big_int ->
  (Big_int_Z.big_int * Big_int_Z.big_int) list ->
  (Big_int_Z.big_int * Big_int_Z.big_int) list res

val option_tie : pst -> ustr list -> pst res

val nick_loop :
  ustr list -> Big_int_Z.big_int -> (Big_int_Z.big_int * ustr) list ->
  (ustr * Big_int_Z.big_int) list -> ((Big_int_Z.big_int * ustr)
  list * (ustr * Big_int_Z.big_int) list) res

val option_nick : pst -> ustr list -> pst res

val cidset_loop :
  pst -> ustr list -> Big_int_Z.big_int list -> Big_int_Z.big_int list res

val s_tie : Big_int_Z.big_int list

val s_nick : Big_int_Z.big_int list

val s_droop : Big_int_Z.big_int list

val s_withdrawn_kw : Big_int_Z.big_int list

val s_undeclared_kw : Big_int_Z.big_int list

val apply_option : pst -> ustr -> ustr list -> pst res

type omode =
| ONone
| OCollect of ustr * ustr list

val opts : ustr list -> pst -> omode -> (pst * ustr list) pres

val array_max : Big_int_Z.big_int -> Big_int_Z.big_int

val ballot_line :
  pst -> Big_int_Z.big_int -> Big_int_Z.big_int list list -> pst res

val finish_bid : pst -> ustr -> pst res

type bmode =
| BHead
| BBid of ustr
| BRank of Big_int_Z.big_int * Big_int_Z.big_int list list

val ballots0 : ustr list -> pst -> bmode -> (pst * ustr list) pres

val names0 :
  ustr list -> Big_int_Z.big_int -> Big_int_Z.big_int -> ustr option ->
  (Big_int_Z.big_int * ustr) list -> ((Big_int_Z.big_int * ustr) list * ustr
  list) pres

val read_quoted : ustr list -> ustr -> (ustr * ustr list) option

val unquote : ustr -> ustr

val opt_string : ustr list -> (ustr * ustr list) option pres

type profile0 = { p_nCand : Big_int_Z.big_int; p_nSeats : Big_int_Z.big_int;
                  p_title : ustr; p_source : ustr option;
                  p_comment : ustr option; p_nBallots : Big_int_Z.big_int;
                  p_eligible : Big_int_Z.big_int list;
                  p_withdrawn : Big_int_Z.big_int list;
                  p_undeclared : Big_int_Z.big_int list;
                  p_candName : (Big_int_Z.big_int * ustr) list;
                  p_candOrder : (Big_int_Z.big_int * Big_int_Z.big_int) list;
                  p_lines : (Big_int_Z.big_int * Big_int_Z.big_int list) list;
                  p_linesEq : (Big_int_Z.big_int * Big_int_Z.big_int list
                              list) list;
                  p_tieOrder : (Big_int_Z.big_int * Big_int_Z.big_int) list;
                  p_nickName : (Big_int_Z.big_int * ustr) list;
                  p_options : ustr list }

type parsed = { r_st : pst; r_names : (Big_int_Z.big_int * ustr) list;
                r_title : ustr; r_source : ustr option;
                r_comment : ustr option }

val parse_tail : pst -> ustr list -> parsed pres

val blt_parse_raw : ustr list -> parsed pres

val blt_parse : ustr list -> parsed res

val validate : pst -> Big_int_Z.big_int list -> unit res

val ustr_of_string : string -> ustr

val ustr_of_Z : Big_int_Z.big_int -> ustr

val cids_upto : Big_int_Z.big_int -> Big_int_Z.big_int list

val finish : parsed -> profile0 res

val parse_tokens : ustr list -> profile0 res

val parse : ustr -> profile0 res

val strip_bom : ustr -> ustr

val parse_file : ustr -> profile0 res

val nl0 : string

val show_zs : Big_int_Z.big_int list -> string

val show_opt : ustr option -> string

val show_lines : ('a1 -> string) -> 'a1 list -> string

val show_ranks : Big_int_Z.big_int list list -> string

val show_profile : profile0 -> string

val show_parse : profile0 res -> string

val toks_zs : tok list -> Big_int_Z.big_int list

val run_parse : tok list -> string

val rd_int : tok list -> (Big_int_Z.big_int * tok list) option

val rd_str : tok list -> (string * tok list) option

val rd_ints : nat -> tok list -> (Big_int_Z.big_int list * tok list) option

val rd_cand : tok list -> (pcand * tok list) option

val rd_many :
  (tok list -> ('a1 * tok list) option) -> nat -> tok list -> ('a1 list * tok
  list) option

val rd_ballot :
  tok list -> ((Big_int_Z.big_int * Big_int_Z.big_int list) * tok list) option

val rd_rank : tok list -> (Big_int_Z.big_int list * tok list) option

val rd_eballot :
  tok list -> ((Big_int_Z.big_int * Big_int_Z.big_int list list) * tok list)
  option

val tag_name : tag -> string

val state_name : cstate -> string

val is_wigm : meth -> bool

val code_of : meth -> cstate -> bool option -> string

val lf : string

val rule_of : Big_int_Z.big_int -> rule

val meth_of : rule -> meth

type count_case = { cc_rule : rule; cc_cfg : config;
                    cc_fuel : Big_int_Z.big_int; cc_profile : profile;
                    cc_ar : Big_int_Z.big_int; cc_p : Big_int_Z.big_int;
                    cc_g : Big_int_Z.big_int; cc_d : Big_int_Z.big_int;
                    cc_stale : Big_int_Z.big_int }

val parse_count_case : tok list -> (string, count_case) sum

type json =
| JNull
| JBool of bool
| JInt of Big_int_Z.big_int
| JStr of string
| JList of json list
| JObj of (string * json) list

type header = { h_title : string; h_droop_name : string;
                h_droop_version : string; h_rule_info : string;
                h_arith_info : string; h_unused : string list;
                h_overridden : string list; h_quota_name : string;
                h_omega : string option; h_source : string option;
                h_comment : string option; h_maxdiff : string;
                h_mindiff : string; h_options : json }

val z_of_ascii : char -> Big_int_Z.big_int

val ascii_of_Z : Big_int_Z.big_int -> char

val str1 : Big_int_Z.big_int -> string

val utf8_decode : Big_int_Z.big_int list -> Big_int_Z.big_int list

val hexdigit : Big_int_Z.big_int -> string

val hex4 : Big_int_Z.big_int -> string

val bslash : string

val dquote : string

val esc_cp : Big_int_Z.big_int -> string

val json_string : string -> string

val spaces : nat -> string

val nlind : nat -> string

val json_pieces : nat -> json -> string list

val json_text_of : json -> string

val is_short_tag : tag -> bool

val is_fill_tag : tag -> bool

val is_end_tag : tag -> bool

val lists_cands : tag -> bool

val qpq_own : tag -> bool

val is_tie : tag -> bool

val pend_true : bool option -> bool

val sv : arith -> t -> string

val sov : arith -> t option -> string

val lookup_sn : arith -> csnap list -> Big_int_Z.big_int -> csnap option

val name_of : arith -> cand list -> Big_int_Z.big_int -> string

val all_cids : arith -> est -> Big_int_Z.big_int list

val elig_cids : arith -> est -> Big_int_Z.big_int list

val record_actions : arith -> est -> action list

val fill_quota : arith -> est -> t

val arith_report : arith -> arith_meta -> header -> est -> string option

val dump_rule_header : config -> string list

val dump_cid_header : config -> Big_int_Z.big_int -> string list

val dump_header : config -> Big_int_Z.big_int list -> string list

val dump_rule_cells : arith -> config -> asnap -> string list

val dump_value_cells : arith -> config -> csnap -> string list

val dump_missing_cells : config -> string list

val dump_cand_cells :
  arith -> config -> cand list -> asnap -> Big_int_Z.big_int -> string list

val dump_short_row : arith -> action -> string list

val dump_row :
  arith -> config -> cand list -> Big_int_Z.big_int list -> action -> string
  list

val dump_table : arith -> config -> est -> string list list

val dump_line : string list -> string

val dump_text : arith -> config -> est -> string

val ordered_snaps : arith -> Big_int_Z.big_int list -> asnap -> csnap list

val sn_in : arith -> cstate -> csnap -> bool

val cand_line :
  arith -> cand list -> string -> (csnap -> string) -> csnap -> string

val vote_str : arith -> csnap -> string

val quo_str : arith -> csnap -> string

val elected_np : arith -> csnap list -> csnap list

val elected_p : arith -> csnap list -> csnap list

val hopeful_sn : arith -> csnap list -> csnap list

val defeated_sn : arith -> csnap list -> csnap list

val defeated_pos : arith -> csnap list -> csnap list

val defeated_zero : arith -> csnap list -> csnap list

val zero_defeated_line : arith -> cand list -> csnap list -> string

val default_cand_lines : arith -> cand list -> csnap list -> string list

val wigm_append : arith -> config -> t -> string -> csnap list -> string list

val meek_append : arith -> header -> asnap -> string list

val action_append :
  arith -> config -> header -> asnap -> csnap list -> string list

val qpq_cand_lines : arith -> cand list -> csnap list -> string list

val qpq_section : config -> tag -> bool

val block_cand_lines :
  arith -> config -> cand list -> Big_int_Z.big_int list -> action -> asnap
  -> string list

val report_action :
  arith -> config -> header -> cand list -> Big_int_Z.big_int list -> action
  -> string list

val opt_line : string -> string option -> string -> string list

val report_header : arith -> config -> header -> est -> string list

val report_pieces :
  arith -> arith_meta -> config -> header -> bool -> est -> string list

val report_text :
  arith -> arith_meta -> config -> header -> bool -> est -> string

val jov : arith -> string -> t option -> (string * json) list

val json_cstate_entry : arith -> config -> csnap -> json

val json_cstate : arith -> config -> csnap list -> json

val json_action : arith -> config -> action -> json

val json_cdict_entry : arith -> cand -> json

val jos : string -> string option -> (string * json) list

val method_name : config -> string

val json_tree : arith -> arith_meta -> config -> header -> est -> json

val json_text : arith -> arith_meta -> config -> header -> est -> string

val rd_strs : nat -> tok list -> (string list * tok list) option

val rd_json : nat -> tok list -> (json * tok list) option

val rd_opt_str : tok list -> (string option * tok list) option

val rd_header : tok list -> ((bool * header) * tok list) option

val mark_report : string

val mark_dump : string

val mark_json : string

val show_render :
  arith -> arith_meta -> config -> header -> bool -> outcome -> string

val run_render : tok list -> string

type oval =
| VNone
| VBool of bool
| VInt of Big_int_Z.big_int
| VStr of string

val oval_num : oval -> Big_int_Z.big_int option

val oval_eqb : oval -> oval -> bool

val is_none : oval -> bool

val py_str : oval -> string

val is_digit0 : char -> bool

val nl_char : char

val digits_value : string -> Big_int_Z.big_int -> Big_int_Z.big_int

val digits_then_end : string -> bool -> bool

val matches_digits : string -> bool

val normalize_val : oval -> oval

val is_space0 : char -> bool

val lstrip : string -> string

val rstrip : string -> string

val int_body : string -> Big_int_Z.big_int -> bool -> Big_int_Z.big_int option

val py_int_str : string -> Big_int_Z.big_int option

val py_int0 : oval -> Big_int_Z.big_int res

val py_floordiv_int : oval -> Big_int_Z.big_int -> oval res

val py_mul2_floordiv3 : oval -> oval res

val str_endswith_aux : string -> string -> nat -> bool

val str_endswith : string -> string -> bool

val lower_char : char -> char

val str_lower : string -> string

val split_eq : string -> string -> string list

val insert_sorted : string -> string list -> string list

val sort_set : string list -> string list

type 'v dict = (string * 'v) list

val dget : string -> 'a1 dict -> 'a1 option

val dmem : string -> 'a1 dict -> bool

val dset : string -> 'a1 -> 'a1 dict -> 'a1 dict

val dsetdefault : string -> 'a1 -> 'a1 dict -> 'a1 dict

val dkeys : 'a1 dict -> string list

val dupdate : 'a1 dict -> 'a1 dict -> 'a1 dict

val dget_or : string -> 'a1 dict -> 'a1 -> 'a1

val dict_of_list : (string * 'a1) list -> 'a1 dict

type store = { o_cmd : oval dict; o_file : oval dict; o_default : oval dict;
               o_force : oval dict; o_allowed : oval list dict }

val set_cmd : store -> oval dict -> store

val set_file : store -> oval dict -> store

val set_default : store -> oval dict -> store

val set_force : store -> oval dict -> store

val set_allowed : store -> oval list dict -> store

val normalize_dict : oval dict -> oval dict

val new_options : oval dict -> store

val update1 : store -> string -> oval -> bool -> store

val update_dict : store -> oval dict -> bool -> store

val getopt : store -> string -> oval

val setopt_store : store -> string -> oval -> bool -> store

val setopt : string -> oval -> bool -> oval list -> store -> oval res * store

val str_in : string -> string list -> bool

val unused : store -> string list

val overrides : store -> string list

type orecord = { rec_cmd : oval dict; rec_file : oval dict;
                 rec_default : oval dict; rec_force : oval dict;
                 rec_allowed : oval list dict; rec_options : oval dict }

val record : store -> orecord

val arithmetic_names : string list

val rule_names : string list

val str_truthy : string -> bool

val parse_step :
  (oval dict * string option) -> string -> (oval dict * string option) res

val parse_loop : string list -> (oval dict * string option) -> oval dict res

val parse0 : string list -> oval dict res

type ('s, 'a) sM = 's -> 'a res * 's

val sret : 'a2 -> ('a1, 'a2) sM

val sbind : ('a1, 'a2) sM -> ('a2 -> ('a1, 'a3) sM) -> ('a1, 'a3) sM

val slift : 'a2 res -> ('a1, 'a2) sM

val sget : ('a1 -> 'a2) -> ('a1, 'a2) sM

type ruleparams = { rp_name : oval option; rp_integer_quota : oval option;
                    rp_defeat_batch : oval option; rp_warren : oval option;
                    rp_omega10 : oval option }

type rulecls =
| KWigm
| KWigmPrf
| KCfer
| KScotland
| KMpls
| KMeek
| KMeekPrf
| KQpq

val rule_by_name : string -> rulecls option

val getopt_m : string -> (store, oval) sM

val endswith_batch : oval -> oval res

val vs : string -> oval

val wigm_options : (store, ruleparams) sM

val prf_options : Big_int_Z.big_int -> (store, ruleparams) sM

val statute_fixed_options :
  string -> Big_int_Z.big_int -> (store, ruleparams) sM

val meek_options : (store, ruleparams) sM

val meek_prf_options : (store, ruleparams) sM

val qpq_options : (store, ruleparams) sM

val rule_options : rulecls -> (store, ruleparams) sM

type acls =
| AFixed
| AGuarded
| ARational

val arithmetic_dispatch : oval -> acls res

type field =
| FxName
| FxInfo
| FxEpsilon
| FxPrecision
| FxDisplay
| FxScale
| FxDfmt
| FxScaled
| FxScaledd
| FxScaledr
| GdPrecision
| GdGuard
| GdDisplay
| GdScale
| GdScalep
| GdScaleg
| GdScaled
| GdScaledd
| GdScaledr
| GdScaledg
| GdGeps
| GdMaxDiff
| GdMinDiff
| GdDfmt
| GdInfo
| GdQuasiExact
| GdExact
| GdEpsilon
| RtDp
| RtDps
| RtDpr
| RtDfmt

val all_fields : field list

val field_idx : field -> Big_int_Z.big_int

val field_eqb : field -> field -> bool

type fv =
| FZ of Big_int_Z.big_int
| FS of string
| FB of bool
| FO of oval
| FFloat

type gstate = field -> fv option

val g_init : gstate

val gset : field -> fv -> gstate -> gstate

type wlog = (field * fv) list

val apply_log : wlog -> gstate -> gstate

val getZ : gstate -> field -> Big_int_Z.big_int

val getS : gstate -> field -> string

val getB : gstate -> field -> bool

type 'a wM = store -> ('a res * store) * wlog

val wret : 'a1 -> 'a1 wM

val wraise : exn -> 'a1 wM

val wbind : 'a1 wM -> ('a1 -> 'a2 wM) -> 'a2 wM

val w_op : (store, 'a1) sM -> 'a1 wM

val wlift : 'a1 res -> 'a1 wM

val wr : field -> fv -> unit wM

val wtell : wlog -> unit wM

val wwhen_raise : bool -> exn -> unit wM

type world = store * gstate

val run_w : 'a1 wM -> world -> 'a1 res * world

val usage_int : oval -> Big_int_Z.big_int res

val fixed_tail : string -> Big_int_Z.big_int -> Big_int_Z.big_int -> wlog

val initialize_fixed : unit wM

val checked_int_attr : field -> oval -> Big_int_Z.big_int wM

val guarded_tail :
  Big_int_Z.big_int -> Big_int_Z.big_int -> Big_int_Z.big_int -> wlog

val initialize_guarded : unit wM

val pow10_oval : oval -> fv res

val initialize_rational : unit wM

val arithmetic_class : acls wM

val election_setup_w : ((rulecls * ruleparams) * acls) wM

val election_setup : world -> ((rulecls * ruleparams) * acls) res * world

val fixed_cls_of : gstate -> fixed_cls

val guarded_cls_of : gstate -> guarded_cls

val is_fx : field -> bool

val is_gd : field -> bool

val is_rt : field -> bool

val reads : acls -> gstate -> field -> bool

val hex_digit : nat -> char

val hex_of : string -> string

val show_oval : oval -> string

val show_ooval : oval option -> string

val join0 : string -> string list -> string

val show_dict : ('a1 -> string) -> 'a1 dict -> string

val show_tuple : oval list -> string

val lf1 : string

val known_keys : string list

val show_store : store -> string

val field_name : field -> string

val body_default : field -> string

val show_fv : field -> fv -> string

val show_field : gstate -> field -> string

val acls_name : acls -> string

val rulecls_name : rulecls -> string

val showb01 : bool -> string

val show_arith : acls -> gstate -> string

val show_resZ_o : Big_int_Z.big_int res -> string

val show_probe :
  acls -> gstate -> (Big_int_Z.big_int * Big_int_Z.big_int) -> string

val show_report : acls -> gstate -> string

val show_params : rulecls -> ruleparams -> string

val rd_value : tok list -> (oval * tok list) option

val rd_n :
  (tok list -> ('a1 * tok list) option) -> nat -> tok list -> ('a1 list * tok
  list) option

val rd_counted :
  (tok list -> ('a1 * tok list) option) -> tok list -> ('a1 list * tok list)
  option

val rd_kv : tok list -> ((string * oval) * tok list) option

val rd_dict : tok list -> (oval dict * tok list) option

val rd_s : tok list -> (string * tok list) option

val rd_nd :
  tok list -> ((Big_int_Z.big_int * Big_int_Z.big_int) * tok list) option

type filespec =
| FDict of oval dict
| FStrs of string list

val rd_config : tok list -> ((oval dict * filespec) * tok list) option

val build_store : (oval dict * filespec) -> store res * store

val run_one :
  (oval dict * filespec) -> gstate -> (((rulecls * ruleparams) * acls)
  res * store) * gstate

val show_hist_outcome : nat -> ((rulecls * ruleparams) * acls) res -> string

val run_hist :
  nat -> (oval dict * filespec) list -> gstate -> string -> string * gstate

val run_setup :
  (Big_int_Z.big_int * Big_int_Z.big_int) list -> (oval dict * filespec) list
  -> (oval dict * filespec) -> string

val show_res_dict : oval dict res -> string

val run_options : tok list -> string

val utf8_encode1 : Big_int_Z.big_int -> Big_int_Z.big_int list

val bytes_to_string : Big_int_Z.big_int list -> string

val utf8_string : ustr -> string

val assocZ : (Big_int_Z.big_int * 'a1) list -> Big_int_Z.big_int -> 'a1 -> 'a1

val memZ : Big_int_Z.big_int -> Big_int_Z.big_int list -> bool

val to_pcand : profile0 -> Big_int_Z.big_int -> pcand

val to_count_profile : profile0 -> profile

val show_resZ : Big_int_Z.big_int res -> string

val show_resB : bool res -> string

val mk_operand : Big_int_Z.big_int -> Big_int_Z.big_int -> operand

val mk_rnd : Big_int_Z.big_int -> rnd

val toks_ints : tok list -> Big_int_Z.big_int list

val run_fixed :
  Big_int_Z.big_int -> Big_int_Z.big_int -> Big_int_Z.big_int ->
  Big_int_Z.big_int -> Big_int_Z.big_int -> Big_int_Z.big_int ->
  Big_int_Z.big_int -> Big_int_Z.big_int -> Big_int_Z.big_int ->
  Big_int_Z.big_int -> Big_int_Z.big_int list -> string

val run_guarded :
  Big_int_Z.big_int -> Big_int_Z.big_int -> Big_int_Z.big_int ->
  Big_int_Z.big_int -> Big_int_Z.big_int -> Big_int_Z.big_int ->
  Big_int_Z.big_int -> Big_int_Z.big_int -> Big_int_Z.big_int ->
  Big_int_Z.big_int -> Big_int_Z.big_int -> Big_int_Z.big_int ->
  Big_int_Z.big_int list -> string

val mkq : Big_int_Z.big_int -> Big_int_Z.big_int -> q

val show_q : q -> string

val show_resQ : q res -> string

val showb : bool -> string

val run_rational :
  Big_int_Z.big_int -> Big_int_Z.big_int -> Big_int_Z.big_int ->
  Big_int_Z.big_int -> Big_int_Z.big_int -> Big_int_Z.big_int ->
  Big_int_Z.big_int -> Big_int_Z.big_int -> Big_int_Z.big_int -> string

val run_values : Big_int_Z.big_int list -> string

val showv : arith -> t -> string

val showov : arith -> t option -> string

val show_pend : bool option -> string

val show_csnap : arith -> meth -> csnap -> string

val show_ballots : arith -> (nat * t) list -> string

val show_action : arith -> meth -> action -> string

val show_cids : arith -> cand list -> string

val show_outcome : arith -> meth -> outcome -> string

val run_case : count_case -> string

val run_count_case : tok list -> string

val run_e2e : tok list -> string

val run : tok list -> string
