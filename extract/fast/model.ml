
type __ = Obj.t

(** val negb : bool -> bool **)

let negb = function
| true -> false
| false -> true

type nat =
| O
| S of nat

(** val snd : ('a1 * 'a2) -> 'a2 **)

let snd = function
| (_, y) -> y

type comparison =
| Eq
| Lt
| Gt

type uint =
| Nil
| D0 of uint
| D1 of uint
| D2 of uint
| D3 of uint
| D4 of uint
| D5 of uint
| D6 of uint
| D7 of uint
| D8 of uint
| D9 of uint

type signed_int =
| Pos of uint
| Neg of uint

(** val revapp : uint -> uint -> uint **)

let rec revapp d d' =
  match d with
  | Nil -> d'
  | D0 d0 -> revapp d0 (D0 d')
  | D1 d0 -> revapp d0 (D1 d')
  | D2 d0 -> revapp d0 (D2 d')
  | D3 d0 -> revapp d0 (D3 d')
  | D4 d0 -> revapp d0 (D4 d')
  | D5 d0 -> revapp d0 (D5 d')
  | D6 d0 -> revapp d0 (D6 d')
  | D7 d0 -> revapp d0 (D7 d')
  | D8 d0 -> revapp d0 (D8 d')
  | D9 d0 -> revapp d0 (D9 d')

(** val rev : uint -> uint **)

let rev d =
  revapp d Nil

module Little =
 struct
  (** val double : uint -> uint **)

  let rec double = function
  | Nil -> Nil
  | D0 d0 -> D0 (double d0)
  | D1 d0 -> D2 (double d0)
  | D2 d0 -> D4 (double d0)
  | D3 d0 -> D6 (double d0)
  | D4 d0 -> D8 (double d0)
  | D5 d0 -> D0 (succ_double d0)
  | D6 d0 -> D2 (succ_double d0)
  | D7 d0 -> D4 (succ_double d0)
  | D8 d0 -> D6 (succ_double d0)
  | D9 d0 -> D8 (succ_double d0)

  (** val succ_double : uint -> uint **)

  and succ_double = function
  | Nil -> D1 Nil
  | D0 d0 -> D1 (double d0)
  | D1 d0 -> D3 (double d0)
  | D2 d0 -> D5 (double d0)
  | D3 d0 -> D7 (double d0)
  | D4 d0 -> D9 (double d0)
  | D5 d0 -> D1 (succ_double d0)
  | D6 d0 -> D3 (succ_double d0)
  | D7 d0 -> D5 (succ_double d0)
  | D8 d0 -> D7 (succ_double d0)
  | D9 d0 -> D9 (succ_double d0)
 end

module Coq__1 = struct
 (** val add : nat -> nat -> nat **)
 let rec add n0 m =
   match n0 with
   | O -> m
   | S p -> S (add p m)
end
include Coq__1

(** val sub : nat -> nat -> nat **)

let rec sub n0 m =
  match n0 with
  | O -> n0
  | S k -> (match m with
            | O -> n0
            | S l -> sub k l)

module Pos =
 struct
  type mask =
  | IsNul
  | IsPos of Big_int_Z.big_int
  | IsNeg
 end

module Coq_Pos =
 struct
  (** val succ : Big_int_Z.big_int -> Big_int_Z.big_int **)

  let rec succ = Big_int_Z.succ_big_int

  (** val add :
      Big_int_Z.big_int -> Big_int_Z.big_int -> Big_int_Z.big_int **)

  let rec add = Big_int_Z.add_big_int

  (** val add_carry :
      Big_int_Z.big_int -> Big_int_Z.big_int -> Big_int_Z.big_int **)

  and add_carry x y =
    (fun f2p1 f2p f1 p ->
  if Big_int_Z.le_big_int p Big_int_Z.unit_big_int then f1 () else
  let (q,r) = Big_int_Z.quomod_big_int p (Big_int_Z.big_int_of_int 2) in
  if Big_int_Z.eq_big_int r Big_int_Z.zero_big_int then f2p q else f2p1 q)
      (fun p ->
      (fun f2p1 f2p f1 p ->
  if Big_int_Z.le_big_int p Big_int_Z.unit_big_int then f1 () else
  let (q,r) = Big_int_Z.quomod_big_int p (Big_int_Z.big_int_of_int 2) in
  if Big_int_Z.eq_big_int r Big_int_Z.zero_big_int then f2p q else f2p1 q)
        (fun q0 ->
        (fun x -> Big_int_Z.succ_big_int (Big_int_Z.mult_int_big_int 2 x))
        (add_carry p q0))
        (fun q0 -> Big_int_Z.mult_int_big_int 2 (add_carry p q0))
        (fun _ ->
        (fun x -> Big_int_Z.succ_big_int (Big_int_Z.mult_int_big_int 2 x))
        (succ p))
        y)
      (fun p ->
      (fun f2p1 f2p f1 p ->
  if Big_int_Z.le_big_int p Big_int_Z.unit_big_int then f1 () else
  let (q,r) = Big_int_Z.quomod_big_int p (Big_int_Z.big_int_of_int 2) in
  if Big_int_Z.eq_big_int r Big_int_Z.zero_big_int then f2p q else f2p1 q)
        (fun q0 -> Big_int_Z.mult_int_big_int 2 (add_carry p q0))
        (fun q0 ->
        (fun x -> Big_int_Z.succ_big_int (Big_int_Z.mult_int_big_int 2 x))
        (add p q0))
        (fun _ -> Big_int_Z.mult_int_big_int 2 (succ p))
        y)
      (fun _ ->
      (fun f2p1 f2p f1 p ->
  if Big_int_Z.le_big_int p Big_int_Z.unit_big_int then f1 () else
  let (q,r) = Big_int_Z.quomod_big_int p (Big_int_Z.big_int_of_int 2) in
  if Big_int_Z.eq_big_int r Big_int_Z.zero_big_int then f2p q else f2p1 q)
        (fun q0 ->
        (fun x -> Big_int_Z.succ_big_int (Big_int_Z.mult_int_big_int 2 x))
        (succ q0))
        (fun q0 -> Big_int_Z.mult_int_big_int 2 (succ q0))
        (fun _ ->
        (fun x -> Big_int_Z.succ_big_int (Big_int_Z.mult_int_big_int 2 x))
        Big_int_Z.unit_big_int)
        y)
      x

  (** val pred_double : Big_int_Z.big_int -> Big_int_Z.big_int **)

  let rec pred_double x =
    (fun f2p1 f2p f1 p ->
  if Big_int_Z.le_big_int p Big_int_Z.unit_big_int then f1 () else
  let (q,r) = Big_int_Z.quomod_big_int p (Big_int_Z.big_int_of_int 2) in
  if Big_int_Z.eq_big_int r Big_int_Z.zero_big_int then f2p q else f2p1 q)
      (fun p ->
      (fun x -> Big_int_Z.succ_big_int (Big_int_Z.mult_int_big_int 2 x))
      (Big_int_Z.mult_int_big_int 2 p))
      (fun p ->
      (fun x -> Big_int_Z.succ_big_int (Big_int_Z.mult_int_big_int 2 x))
      (pred_double p))
      (fun _ -> Big_int_Z.unit_big_int)
      x

  type mask = Pos.mask =
  | IsNul
  | IsPos of Big_int_Z.big_int
  | IsNeg

  (** val succ_double_mask : mask -> mask **)

  let succ_double_mask = function
  | IsNul -> IsPos Big_int_Z.unit_big_int
  | IsPos p ->
    IsPos ((fun x -> Big_int_Z.succ_big_int (Big_int_Z.mult_int_big_int 2 x))
      p)
  | IsNeg -> IsNeg

  (** val double_mask : mask -> mask **)

  let double_mask = function
  | IsPos p -> IsPos (Big_int_Z.mult_int_big_int 2 p)
  | x0 -> x0

  (** val double_pred_mask : Big_int_Z.big_int -> mask **)

  let double_pred_mask x =
    (fun f2p1 f2p f1 p ->
  if Big_int_Z.le_big_int p Big_int_Z.unit_big_int then f1 () else
  let (q,r) = Big_int_Z.quomod_big_int p (Big_int_Z.big_int_of_int 2) in
  if Big_int_Z.eq_big_int r Big_int_Z.zero_big_int then f2p q else f2p1 q)
      (fun p -> IsPos (Big_int_Z.mult_int_big_int 2
      (Big_int_Z.mult_int_big_int 2 p)))
      (fun p -> IsPos (Big_int_Z.mult_int_big_int 2
      (pred_double p)))
      (fun _ -> IsNul)
      x

  (** val sub_mask : Big_int_Z.big_int -> Big_int_Z.big_int -> mask **)

  let rec sub_mask x y =
    (fun f2p1 f2p f1 p ->
  if Big_int_Z.le_big_int p Big_int_Z.unit_big_int then f1 () else
  let (q,r) = Big_int_Z.quomod_big_int p (Big_int_Z.big_int_of_int 2) in
  if Big_int_Z.eq_big_int r Big_int_Z.zero_big_int then f2p q else f2p1 q)
      (fun p ->
      (fun f2p1 f2p f1 p ->
  if Big_int_Z.le_big_int p Big_int_Z.unit_big_int then f1 () else
  let (q,r) = Big_int_Z.quomod_big_int p (Big_int_Z.big_int_of_int 2) in
  if Big_int_Z.eq_big_int r Big_int_Z.zero_big_int then f2p q else f2p1 q)
        (fun q0 -> double_mask (sub_mask p q0))
        (fun q0 -> succ_double_mask (sub_mask p q0))
        (fun _ -> IsPos (Big_int_Z.mult_int_big_int 2 p))
        y)
      (fun p ->
      (fun f2p1 f2p f1 p ->
  if Big_int_Z.le_big_int p Big_int_Z.unit_big_int then f1 () else
  let (q,r) = Big_int_Z.quomod_big_int p (Big_int_Z.big_int_of_int 2) in
  if Big_int_Z.eq_big_int r Big_int_Z.zero_big_int then f2p q else f2p1 q)
        (fun q0 -> succ_double_mask (sub_mask_carry p q0))
        (fun q0 -> double_mask (sub_mask p q0))
        (fun _ -> IsPos (pred_double p))
        y)
      (fun _ ->
      (fun f2p1 f2p f1 p ->
  if Big_int_Z.le_big_int p Big_int_Z.unit_big_int then f1 () else
  let (q,r) = Big_int_Z.quomod_big_int p (Big_int_Z.big_int_of_int 2) in
  if Big_int_Z.eq_big_int r Big_int_Z.zero_big_int then f2p q else f2p1 q)
        (fun _ -> IsNeg)
        (fun _ -> IsNeg)
        (fun _ -> IsNul)
        y)
      x

  (** val sub_mask_carry : Big_int_Z.big_int -> Big_int_Z.big_int -> mask **)

  and sub_mask_carry x y =
    (fun f2p1 f2p f1 p ->
  if Big_int_Z.le_big_int p Big_int_Z.unit_big_int then f1 () else
  let (q,r) = Big_int_Z.quomod_big_int p (Big_int_Z.big_int_of_int 2) in
  if Big_int_Z.eq_big_int r Big_int_Z.zero_big_int then f2p q else f2p1 q)
      (fun p ->
      (fun f2p1 f2p f1 p ->
  if Big_int_Z.le_big_int p Big_int_Z.unit_big_int then f1 () else
  let (q,r) = Big_int_Z.quomod_big_int p (Big_int_Z.big_int_of_int 2) in
  if Big_int_Z.eq_big_int r Big_int_Z.zero_big_int then f2p q else f2p1 q)
        (fun q0 -> succ_double_mask (sub_mask_carry p q0))
        (fun q0 -> double_mask (sub_mask p q0))
        (fun _ -> IsPos (pred_double p))
        y)
      (fun p ->
      (fun f2p1 f2p f1 p ->
  if Big_int_Z.le_big_int p Big_int_Z.unit_big_int then f1 () else
  let (q,r) = Big_int_Z.quomod_big_int p (Big_int_Z.big_int_of_int 2) in
  if Big_int_Z.eq_big_int r Big_int_Z.zero_big_int then f2p q else f2p1 q)
        (fun q0 -> double_mask (sub_mask_carry p q0))
        (fun q0 -> succ_double_mask (sub_mask_carry p q0))
        (fun _ -> double_pred_mask p)
        y)
      (fun _ -> IsNeg)
      x

  (** val sub :
      Big_int_Z.big_int -> Big_int_Z.big_int -> Big_int_Z.big_int **)

  let sub = (fun n m -> Big_int_Z.max_big_int
  Big_int_Z.unit_big_int (Big_int_Z.sub_big_int n m))

  (** val mul :
      Big_int_Z.big_int -> Big_int_Z.big_int -> Big_int_Z.big_int **)

  let rec mul = Big_int_Z.mult_big_int

  (** val iter : ('a1 -> 'a1) -> 'a1 -> Big_int_Z.big_int -> 'a1 **)

  let rec iter f x n0 =
    (fun f2p1 f2p f1 p ->
  if Big_int_Z.le_big_int p Big_int_Z.unit_big_int then f1 () else
  let (q,r) = Big_int_Z.quomod_big_int p (Big_int_Z.big_int_of_int 2) in
  if Big_int_Z.eq_big_int r Big_int_Z.zero_big_int then f2p q else f2p1 q)
      (fun n' -> f (iter f (iter f x n') n'))
      (fun n' -> iter f (iter f x n') n')
      (fun _ -> f x)
      n0

  (** val size_nat : Big_int_Z.big_int -> nat **)

  let rec size_nat p =
    (fun f2p1 f2p f1 p ->
  if Big_int_Z.le_big_int p Big_int_Z.unit_big_int then f1 () else
  let (q,r) = Big_int_Z.quomod_big_int p (Big_int_Z.big_int_of_int 2) in
  if Big_int_Z.eq_big_int r Big_int_Z.zero_big_int then f2p q else f2p1 q)
      (fun p0 -> S (size_nat p0))
      (fun p0 -> S (size_nat p0))
      (fun _ -> S O)
      p

  (** val compare_cont :
      comparison -> Big_int_Z.big_int -> Big_int_Z.big_int -> comparison **)

  let rec compare_cont = (fun c x y -> let s = Big_int_Z.compare_big_int x y in
  if s = 0 then c else if s < 0 then Lt else Gt)

  (** val compare : Big_int_Z.big_int -> Big_int_Z.big_int -> comparison **)

  let compare = (fun x y -> let s = Big_int_Z.compare_big_int x y in
  if s = 0 then Eq else if s < 0 then Lt else Gt)

  (** val eqb : Big_int_Z.big_int -> Big_int_Z.big_int -> bool **)

  let rec eqb p q0 =
    (fun f2p1 f2p f1 p ->
  if Big_int_Z.le_big_int p Big_int_Z.unit_big_int then f1 () else
  let (q,r) = Big_int_Z.quomod_big_int p (Big_int_Z.big_int_of_int 2) in
  if Big_int_Z.eq_big_int r Big_int_Z.zero_big_int then f2p q else f2p1 q)
      (fun p0 ->
      (fun f2p1 f2p f1 p ->
  if Big_int_Z.le_big_int p Big_int_Z.unit_big_int then f1 () else
  let (q,r) = Big_int_Z.quomod_big_int p (Big_int_Z.big_int_of_int 2) in
  if Big_int_Z.eq_big_int r Big_int_Z.zero_big_int then f2p q else f2p1 q)
        (fun q1 -> eqb p0 q1)
        (fun _ -> false)
        (fun _ -> false)
        q0)
      (fun p0 ->
      (fun f2p1 f2p f1 p ->
  if Big_int_Z.le_big_int p Big_int_Z.unit_big_int then f1 () else
  let (q,r) = Big_int_Z.quomod_big_int p (Big_int_Z.big_int_of_int 2) in
  if Big_int_Z.eq_big_int r Big_int_Z.zero_big_int then f2p q else f2p1 q)
        (fun _ -> false)
        (fun q1 -> eqb p0 q1)
        (fun _ -> false)
        q0)
      (fun _ ->
      (fun f2p1 f2p f1 p ->
  if Big_int_Z.le_big_int p Big_int_Z.unit_big_int then f1 () else
  let (q,r) = Big_int_Z.quomod_big_int p (Big_int_Z.big_int_of_int 2) in
  if Big_int_Z.eq_big_int r Big_int_Z.zero_big_int then f2p q else f2p1 q)
        (fun _ -> false)
        (fun _ -> false)
        (fun _ -> true)
        q0)
      p

  (** val ggcdn :
      nat -> Big_int_Z.big_int -> Big_int_Z.big_int ->
      Big_int_Z.big_int * (Big_int_Z.big_int * Big_int_Z.big_int) **)

  let rec ggcdn n0 a b =
    match n0 with
    | O -> (Big_int_Z.unit_big_int, (a, b))
    | S n1 ->
      ((fun f2p1 f2p f1 p ->
  if Big_int_Z.le_big_int p Big_int_Z.unit_big_int then f1 () else
  let (q,r) = Big_int_Z.quomod_big_int p (Big_int_Z.big_int_of_int 2) in
  if Big_int_Z.eq_big_int r Big_int_Z.zero_big_int then f2p q else f2p1 q)
         (fun a' ->
         (fun f2p1 f2p f1 p ->
  if Big_int_Z.le_big_int p Big_int_Z.unit_big_int then f1 () else
  let (q,r) = Big_int_Z.quomod_big_int p (Big_int_Z.big_int_of_int 2) in
  if Big_int_Z.eq_big_int r Big_int_Z.zero_big_int then f2p q else f2p1 q)
           (fun b' ->
           match compare a' b' with
           | Eq -> (a, (Big_int_Z.unit_big_int, Big_int_Z.unit_big_int))
           | Lt ->
             let (g, p) = ggcdn n1 (sub b' a') a in
             let (ba, aa) = p in
             (g, (aa, (add aa (Big_int_Z.mult_int_big_int 2 ba))))
           | Gt ->
             let (g, p) = ggcdn n1 (sub a' b') b in
             let (ab, bb) = p in
             (g, ((add bb (Big_int_Z.mult_int_big_int 2 ab)), bb)))
           (fun b0 ->
           let (g, p) = ggcdn n1 a b0 in
           let (aa, bb) = p in (g, (aa, (Big_int_Z.mult_int_big_int 2 bb))))
           (fun _ -> (Big_int_Z.unit_big_int, (a, Big_int_Z.unit_big_int)))
           b)
         (fun a0 ->
         (fun f2p1 f2p f1 p ->
  if Big_int_Z.le_big_int p Big_int_Z.unit_big_int then f1 () else
  let (q,r) = Big_int_Z.quomod_big_int p (Big_int_Z.big_int_of_int 2) in
  if Big_int_Z.eq_big_int r Big_int_Z.zero_big_int then f2p q else f2p1 q)
           (fun _ ->
           let (g, p) = ggcdn n1 a0 b in
           let (aa, bb) = p in (g, ((Big_int_Z.mult_int_big_int 2 aa), bb)))
           (fun b0 ->
           let (g, p) = ggcdn n1 a0 b0 in
           ((Big_int_Z.mult_int_big_int 2 g), p))
           (fun _ -> (Big_int_Z.unit_big_int, (a, Big_int_Z.unit_big_int)))
           b)
         (fun _ -> (Big_int_Z.unit_big_int, (Big_int_Z.unit_big_int, b)))
         a)

  (** val ggcd :
      Big_int_Z.big_int -> Big_int_Z.big_int ->
      Big_int_Z.big_int * (Big_int_Z.big_int * Big_int_Z.big_int) **)

  let ggcd a b =
    ggcdn (Coq__1.add (size_nat a) (size_nat b)) a b

  (** val iter_op : ('a1 -> 'a1 -> 'a1) -> Big_int_Z.big_int -> 'a1 -> 'a1 **)

  let rec iter_op op p a =
    (fun f2p1 f2p f1 p ->
  if Big_int_Z.le_big_int p Big_int_Z.unit_big_int then f1 () else
  let (q,r) = Big_int_Z.quomod_big_int p (Big_int_Z.big_int_of_int 2) in
  if Big_int_Z.eq_big_int r Big_int_Z.zero_big_int then f2p q else f2p1 q)
      (fun p0 -> op a (iter_op op p0 (op a a)))
      (fun p0 -> iter_op op p0 (op a a))
      (fun _ -> a)
      p

  (** val to_nat : Big_int_Z.big_int -> nat **)

  let to_nat x =
    iter_op Coq__1.add x (S O)

  (** val of_succ_nat : nat -> Big_int_Z.big_int **)

  let rec of_succ_nat = function
  | O -> Big_int_Z.unit_big_int
  | S x -> succ (of_succ_nat x)

  (** val to_little_uint : Big_int_Z.big_int -> uint **)

  let rec to_little_uint p =
    (fun f2p1 f2p f1 p ->
  if Big_int_Z.le_big_int p Big_int_Z.unit_big_int then f1 () else
  let (q,r) = Big_int_Z.quomod_big_int p (Big_int_Z.big_int_of_int 2) in
  if Big_int_Z.eq_big_int r Big_int_Z.zero_big_int then f2p q else f2p1 q)
      (fun p0 -> Little.succ_double (to_little_uint p0))
      (fun p0 -> Little.double (to_little_uint p0))
      (fun _ -> D1 Nil)
      p

  (** val to_uint : Big_int_Z.big_int -> uint **)

  let to_uint p =
    rev (to_little_uint p)
 end

module N =
 struct
  (** val of_nat : nat -> Big_int_Z.big_int **)

  let of_nat = function
  | O -> Big_int_Z.zero_big_int
  | S n' -> (Coq_Pos.of_succ_nat n')
 end

(** val zero : char **)

let zero = '\000'

(** val one : char **)

let one = '\001'

(** val shift : bool -> char -> char **)

let shift = fun b c -> Char.chr (((Char.code c) lsl 1) land 255 + if b then 1 else 0)

(** val ascii_of_pos : Big_int_Z.big_int -> char **)

let ascii_of_pos =
  let rec loop n0 p =
    match n0 with
    | O -> zero
    | S n' ->
      ((fun f2p1 f2p f1 p ->
  if Big_int_Z.le_big_int p Big_int_Z.unit_big_int then f1 () else
  let (q,r) = Big_int_Z.quomod_big_int p (Big_int_Z.big_int_of_int 2) in
  if Big_int_Z.eq_big_int r Big_int_Z.zero_big_int then f2p q else f2p1 q)
         (fun p' -> shift true (loop n' p'))
         (fun p' -> shift false (loop n' p'))
         (fun _ -> one)
         p)
  in loop (S (S (S (S (S (S (S (S O))))))))

(** val ascii_of_N : Big_int_Z.big_int -> char **)

let ascii_of_N n0 =
  (fun fO fp n -> if Big_int_Z.sign_big_int n <= 0 then fO () else fp n)
    (fun _ -> zero)
    (fun p -> ascii_of_pos p)
    n0

(** val ascii_of_nat : nat -> char **)

let ascii_of_nat a =
  ascii_of_N (N.of_nat a)

(** val fold_left : ('a1 -> 'a2 -> 'a1) -> 'a2 list -> 'a1 -> 'a1 **)

let rec fold_left f l a0 =
  match l with
  | [] -> a0
  | b :: t0 -> fold_left f t0 (f a0 b)

(** val existsb : ('a1 -> bool) -> 'a1 list -> bool **)

let rec existsb f = function
| [] -> false
| a :: l0 -> (||) (f a) (existsb f l0)

module Z =
 struct
  (** val double : Big_int_Z.big_int -> Big_int_Z.big_int **)

  let double x =
    (fun fO fp fn z -> let s = Big_int_Z.sign_big_int z in
  if s = 0 then fO () else if s > 0 then fp z
  else fn (Big_int_Z.minus_big_int z))
      (fun _ -> Big_int_Z.zero_big_int)
      (fun p -> (Big_int_Z.mult_int_big_int 2 p))
      (fun p -> Big_int_Z.minus_big_int (Big_int_Z.mult_int_big_int 2 p))
      x

  (** val succ_double : Big_int_Z.big_int -> Big_int_Z.big_int **)

  let succ_double x =
    (fun fO fp fn z -> let s = Big_int_Z.sign_big_int z in
  if s = 0 then fO () else if s > 0 then fp z
  else fn (Big_int_Z.minus_big_int z))
      (fun _ -> Big_int_Z.unit_big_int)
      (fun p ->
      ((fun x -> Big_int_Z.succ_big_int (Big_int_Z.mult_int_big_int 2 x))
      p))
      (fun p -> Big_int_Z.minus_big_int (Coq_Pos.pred_double p))
      x

  (** val pred_double : Big_int_Z.big_int -> Big_int_Z.big_int **)

  let pred_double x =
    (fun fO fp fn z -> let s = Big_int_Z.sign_big_int z in
  if s = 0 then fO () else if s > 0 then fp z
  else fn (Big_int_Z.minus_big_int z))
      (fun _ -> Big_int_Z.minus_big_int Big_int_Z.unit_big_int)
      (fun p -> (Coq_Pos.pred_double p))
      (fun p -> Big_int_Z.minus_big_int
      ((fun x -> Big_int_Z.succ_big_int (Big_int_Z.mult_int_big_int 2 x)) p))
      x

  (** val pos_sub :
      Big_int_Z.big_int -> Big_int_Z.big_int -> Big_int_Z.big_int **)

  let rec pos_sub x y =
    (fun f2p1 f2p f1 p ->
  if Big_int_Z.le_big_int p Big_int_Z.unit_big_int then f1 () else
  let (q,r) = Big_int_Z.quomod_big_int p (Big_int_Z.big_int_of_int 2) in
  if Big_int_Z.eq_big_int r Big_int_Z.zero_big_int then f2p q else f2p1 q)
      (fun p ->
      (fun f2p1 f2p f1 p ->
  if Big_int_Z.le_big_int p Big_int_Z.unit_big_int then f1 () else
  let (q,r) = Big_int_Z.quomod_big_int p (Big_int_Z.big_int_of_int 2) in
  if Big_int_Z.eq_big_int r Big_int_Z.zero_big_int then f2p q else f2p1 q)
        (fun q0 -> double (pos_sub p q0))
        (fun q0 -> succ_double (pos_sub p q0))
        (fun _ -> (Big_int_Z.mult_int_big_int 2 p))
        y)
      (fun p ->
      (fun f2p1 f2p f1 p ->
  if Big_int_Z.le_big_int p Big_int_Z.unit_big_int then f1 () else
  let (q,r) = Big_int_Z.quomod_big_int p (Big_int_Z.big_int_of_int 2) in
  if Big_int_Z.eq_big_int r Big_int_Z.zero_big_int then f2p q else f2p1 q)
        (fun q0 -> pred_double (pos_sub p q0))
        (fun q0 -> double (pos_sub p q0))
        (fun _ -> (Coq_Pos.pred_double p))
        y)
      (fun _ ->
      (fun f2p1 f2p f1 p ->
  if Big_int_Z.le_big_int p Big_int_Z.unit_big_int then f1 () else
  let (q,r) = Big_int_Z.quomod_big_int p (Big_int_Z.big_int_of_int 2) in
  if Big_int_Z.eq_big_int r Big_int_Z.zero_big_int then f2p q else f2p1 q)
        (fun q0 -> Big_int_Z.minus_big_int (Big_int_Z.mult_int_big_int 2
        q0))
        (fun q0 -> Big_int_Z.minus_big_int (Coq_Pos.pred_double q0))
        (fun _ -> Big_int_Z.zero_big_int)
        y)
      x

  (** val add :
      Big_int_Z.big_int -> Big_int_Z.big_int -> Big_int_Z.big_int **)

  let add = Big_int_Z.add_big_int

  (** val opp : Big_int_Z.big_int -> Big_int_Z.big_int **)

  let opp = Big_int_Z.minus_big_int

  (** val sub :
      Big_int_Z.big_int -> Big_int_Z.big_int -> Big_int_Z.big_int **)

  let sub = Big_int_Z.sub_big_int

  (** val mul :
      Big_int_Z.big_int -> Big_int_Z.big_int -> Big_int_Z.big_int **)

  let mul = Big_int_Z.mult_big_int

  (** val pow_pos :
      Big_int_Z.big_int -> Big_int_Z.big_int -> Big_int_Z.big_int **)

  let pow_pos z0 =
    Coq_Pos.iter (mul z0) Big_int_Z.unit_big_int

  (** val pow :
      Big_int_Z.big_int -> Big_int_Z.big_int -> Big_int_Z.big_int **)

  let pow x y =
    (fun fO fp fn z -> let s = Big_int_Z.sign_big_int z in
  if s = 0 then fO () else if s > 0 then fp z
  else fn (Big_int_Z.minus_big_int z))
      (fun _ -> Big_int_Z.unit_big_int)
      (fun p -> pow_pos x p)
      (fun _ -> Big_int_Z.zero_big_int)
      y

  (** val compare : Big_int_Z.big_int -> Big_int_Z.big_int -> comparison **)

  let compare = (fun x y -> let s = Big_int_Z.compare_big_int x y in
  if s = 0 then Eq else if s < 0 then Lt else Gt)

  (** val sgn : Big_int_Z.big_int -> Big_int_Z.big_int **)

  let sgn z0 =
    (fun fO fp fn z -> let s = Big_int_Z.sign_big_int z in
  if s = 0 then fO () else if s > 0 then fp z
  else fn (Big_int_Z.minus_big_int z))
      (fun _ -> Big_int_Z.zero_big_int)
      (fun _ -> Big_int_Z.unit_big_int)
      (fun _ -> Big_int_Z.minus_big_int Big_int_Z.unit_big_int)
      z0

  (** val leb : Big_int_Z.big_int -> Big_int_Z.big_int -> bool **)

  let leb x y =
    match compare x y with
    | Gt -> false
    | _ -> true

  (** val ltb : Big_int_Z.big_int -> Big_int_Z.big_int -> bool **)

  let ltb x y =
    match compare x y with
    | Lt -> true
    | _ -> false

  (** val eqb : Big_int_Z.big_int -> Big_int_Z.big_int -> bool **)

  let eqb = Big_int_Z.eq_big_int

  (** val abs : Big_int_Z.big_int -> Big_int_Z.big_int **)

  let abs = Big_int_Z.abs_big_int

  (** val to_nat : Big_int_Z.big_int -> nat **)

  let to_nat z0 =
    (fun fO fp fn z -> let s = Big_int_Z.sign_big_int z in
  if s = 0 then fO () else if s > 0 then fp z
  else fn (Big_int_Z.minus_big_int z))
      (fun _ -> O)
      (fun p -> Coq_Pos.to_nat p)
      (fun _ -> O)
      z0

  (** val to_pos : Big_int_Z.big_int -> Big_int_Z.big_int **)

  let to_pos z0 =
    (fun fO fp fn z -> let s = Big_int_Z.sign_big_int z in
  if s = 0 then fO () else if s > 0 then fp z
  else fn (Big_int_Z.minus_big_int z))
      (fun _ -> Big_int_Z.unit_big_int)
      (fun p -> p)
      (fun _ -> Big_int_Z.unit_big_int)
      z0

  (** val to_int : Big_int_Z.big_int -> signed_int **)

  let to_int n0 =
    (fun fO fp fn z -> let s = Big_int_Z.sign_big_int z in
  if s = 0 then fO () else if s > 0 then fp z
  else fn (Big_int_Z.minus_big_int z))
      (fun _ -> Pos (D0 Nil))
      (fun p -> Pos (Coq_Pos.to_uint p))
      (fun p -> Neg (Coq_Pos.to_uint p))
      n0

  (** val pos_div_eucl :
      Big_int_Z.big_int -> Big_int_Z.big_int ->
      Big_int_Z.big_int * Big_int_Z.big_int **)

  let rec pos_div_eucl a b =
    (fun f2p1 f2p f1 p ->
  if Big_int_Z.le_big_int p Big_int_Z.unit_big_int then f1 () else
  let (q,r) = Big_int_Z.quomod_big_int p (Big_int_Z.big_int_of_int 2) in
  if Big_int_Z.eq_big_int r Big_int_Z.zero_big_int then f2p q else f2p1 q)
      (fun a' ->
      let (q0, r) = pos_div_eucl a' b in
      let r' =
        add (mul (Big_int_Z.mult_int_big_int 2 Big_int_Z.unit_big_int) r)
          Big_int_Z.unit_big_int
      in
      if ltb r' b
      then ((mul (Big_int_Z.mult_int_big_int 2 Big_int_Z.unit_big_int) q0),
             r')
      else ((add
              (mul (Big_int_Z.mult_int_big_int 2 Big_int_Z.unit_big_int) q0)
              Big_int_Z.unit_big_int), (sub r' b)))
      (fun a' ->
      let (q0, r) = pos_div_eucl a' b in
      let r' = mul (Big_int_Z.mult_int_big_int 2 Big_int_Z.unit_big_int) r in
      if ltb r' b
      then ((mul (Big_int_Z.mult_int_big_int 2 Big_int_Z.unit_big_int) q0),
             r')
      else ((add
              (mul (Big_int_Z.mult_int_big_int 2 Big_int_Z.unit_big_int) q0)
              Big_int_Z.unit_big_int), (sub r' b)))
      (fun _ ->
      if leb (Big_int_Z.mult_int_big_int 2 Big_int_Z.unit_big_int) b
      then (Big_int_Z.zero_big_int, Big_int_Z.unit_big_int)
      else (Big_int_Z.unit_big_int, Big_int_Z.zero_big_int))
      a

  (** val div_eucl :
      Big_int_Z.big_int -> Big_int_Z.big_int ->
      Big_int_Z.big_int * Big_int_Z.big_int **)

  let div_eucl = Big_int_Z.(fun x y ->
  match sign_big_int y with
  | 0 -> (zero_big_int, x)
  | 1 -> quomod_big_int x y
  | _ -> let (q, r) = quomod_big_int (add_int_big_int (-1) x) y in
          (add_int_big_int (-1) q, add_big_int (add_int_big_int 1 y) r))

  (** val div :
      Big_int_Z.big_int -> Big_int_Z.big_int -> Big_int_Z.big_int **)

  let div = Big_int_Z.(fun x y ->
  match sign_big_int y with
  | 0 -> zero_big_int
  | 1 -> div_big_int x y
  | _ -> add_int_big_int (-1) (div_big_int (add_int_big_int (-1) x) y))

  (** val modulo :
      Big_int_Z.big_int -> Big_int_Z.big_int -> Big_int_Z.big_int **)

  let modulo = Big_int_Z.(fun x y ->
  match sign_big_int y with
  | 0 -> x
  | 1 -> mod_big_int x y
  | _ -> add_big_int y (add_int_big_int 1 (mod_big_int (add_int_big_int (-1) x) y)))

  (** val ggcd :
      Big_int_Z.big_int -> Big_int_Z.big_int ->
      Big_int_Z.big_int * (Big_int_Z.big_int * Big_int_Z.big_int) **)

  let ggcd a b =
    (fun fO fp fn z -> let s = Big_int_Z.sign_big_int z in
  if s = 0 then fO () else if s > 0 then fp z
  else fn (Big_int_Z.minus_big_int z))
      (fun _ -> ((abs b), (Big_int_Z.zero_big_int, (sgn b))))
      (fun a0 ->
      (fun fO fp fn z -> let s = Big_int_Z.sign_big_int z in
  if s = 0 then fO () else if s > 0 then fp z
  else fn (Big_int_Z.minus_big_int z))
        (fun _ -> ((abs a), ((sgn a), Big_int_Z.zero_big_int)))
        (fun b0 ->
        let (g, p) = Coq_Pos.ggcd a0 b0 in let (aa, bb) = p in (g, (aa, bb)))
        (fun b0 ->
        let (g, p) = Coq_Pos.ggcd a0 b0 in
        let (aa, bb) = p in (g, (aa, (Big_int_Z.minus_big_int bb))))
        b)
      (fun a0 ->
      (fun fO fp fn z -> let s = Big_int_Z.sign_big_int z in
  if s = 0 then fO () else if s > 0 then fp z
  else fn (Big_int_Z.minus_big_int z))
        (fun _ -> ((abs a), ((sgn a), Big_int_Z.zero_big_int)))
        (fun b0 ->
        let (g, p) = Coq_Pos.ggcd a0 b0 in
        let (aa, bb) = p in (g, ((Big_int_Z.minus_big_int aa), bb)))
        (fun b0 ->
        let (g, p) = Coq_Pos.ggcd a0 b0 in
        let (aa, bb) = p in
        (g, ((Big_int_Z.minus_big_int aa), (Big_int_Z.minus_big_int bb))))
        b)
      a
 end

(** val zeq_bool : Big_int_Z.big_int -> Big_int_Z.big_int -> bool **)

let zeq_bool x y =
  match Z.compare x y with
  | Eq -> true
  | _ -> false

(** val length : string -> nat **)

let rec length s =
  (* If this appears, you're using String internals. Please don't *)
 (fun f0 f1 s ->
    let l = String.length s in
    if l = 0 then f0 () else f1 (String.get s 0) (String.sub s 1 (l-1)))

    (fun _ -> O)
    (fun _ s' -> S (length s'))
    s

type q = { qnum : Big_int_Z.big_int; qden : Big_int_Z.big_int }

(** val inject_Z : Big_int_Z.big_int -> q **)

let inject_Z x =
  { qnum = x; qden = Big_int_Z.unit_big_int }

(** val qcompare : q -> q -> comparison **)

let qcompare p q0 =
  Z.compare (Z.mul p.qnum q0.qden) (Z.mul q0.qnum p.qden)

(** val qeq_bool : q -> q -> bool **)

let qeq_bool x y =
  zeq_bool (Z.mul x.qnum y.qden) (Z.mul y.qnum x.qden)

(** val qplus : q -> q -> q **)

let qplus x y =
  { qnum = (Z.add (Z.mul x.qnum y.qden) (Z.mul y.qnum x.qden)); qden =
    (Coq_Pos.mul x.qden y.qden) }

(** val qmult : q -> q -> q **)

let qmult x y =
  { qnum = (Z.mul x.qnum y.qnum); qden = (Coq_Pos.mul x.qden y.qden) }

(** val qopp : q -> q **)

let qopp x =
  { qnum = (Z.opp x.qnum); qden = x.qden }

(** val qminus : q -> q -> q **)

let qminus x y =
  qplus x (qopp y)

(** val qinv : q -> q **)

let qinv x =
  (fun fO fp fn z -> let s = Big_int_Z.sign_big_int z in
  if s = 0 then fO () else if s > 0 then fp z
  else fn (Big_int_Z.minus_big_int z))
    (fun _ -> { qnum = Big_int_Z.zero_big_int; qden =
    Big_int_Z.unit_big_int })
    (fun p -> { qnum = x.qden; qden = p })
    (fun p -> { qnum = (Big_int_Z.minus_big_int x.qden); qden = p })
    x.qnum

(** val qdiv : q -> q -> q **)

let qdiv x y =
  qmult x (qinv y)

(** val qred : q -> q **)

let qred q0 =
  let { qnum = q1; qden = q2 } = q0 in
  let (r1, r2) = snd (Z.ggcd q1 q2) in { qnum = r1; qden = (Z.to_pos r2) }

type exn =
| ZeroDivisionError
| ValueError
| IndexError
| TypeError
| AttributeError
| AssertionError
| KeyError
| UnboundLocalError
| OverflowError
| NotImplementedErr
| UsageError
| ElectionError
| ElectionProfileError

type 'a res =
| Ok of 'a
| Raise of exn

(** val bind : 'a1 res -> ('a1 -> 'a2 res) -> 'a2 res **)

let bind r f =
  match r with
  | Ok a -> f a
  | Raise e -> Raise e

type operand =
| OInt of Big_int_Z.big_int
| OVal of Big_int_Z.big_int

(** val operand_raw : operand -> Big_int_Z.big_int **)

let operand_raw = function
| OInt n0 -> n0
| OVal r -> r

(** val operand_value : operand -> Big_int_Z.big_int res **)

let operand_value = function
| OInt _ -> Raise AttributeError
| OVal r -> Ok r

(** val res_true : bool res -> bool **)

let res_true = function
| Ok a -> a
| Raise _ -> false

type rnd =
| RUp
| RDown
| RNone
| ROther

(** val rnd_eqb : rnd -> rnd -> bool **)

let rnd_eqb a b =
  match a with
  | RUp -> (match b with
            | RUp -> true
            | _ -> false)
  | RDown -> (match b with
              | RDown -> true
              | _ -> false)
  | RNone -> (match b with
              | RNone -> true
              | _ -> false)
  | ROther -> (match b with
               | ROther -> true
               | _ -> false)

(** val rnd_in : rnd -> rnd list -> bool **)

let rnd_in a l =
  existsb (rnd_eqb a) l

(** val pydiv :
    Big_int_Z.big_int -> Big_int_Z.big_int -> Big_int_Z.big_int res **)

let pydiv a b =
  if Z.eqb b Big_int_Z.zero_big_int
  then Raise ZeroDivisionError
  else Ok (Z.div a b)

(** val pymod :
    Big_int_Z.big_int -> Big_int_Z.big_int -> Big_int_Z.big_int res **)

let pymod a b =
  if Z.eqb b Big_int_Z.zero_big_int
  then Raise ZeroDivisionError
  else Ok (Z.modulo a b)

(** val pydivmod :
    Big_int_Z.big_int -> Big_int_Z.big_int ->
    (Big_int_Z.big_int * Big_int_Z.big_int) res **)

let pydivmod a b =
  if Z.eqb b Big_int_Z.zero_big_int
  then Raise ZeroDivisionError
  else Ok ((Z.div a b), (Z.modulo a b))

(** val truthy : Big_int_Z.big_int -> bool **)

let truthy z0 =
  negb (Z.eqb z0 Big_int_Z.zero_big_int)

(** val py_min_by : ('a1 -> 'a1 -> bool) -> 'a1 list -> 'a1 res **)

let py_min_by lt = function
| [] -> Raise ValueError
| x :: t0 -> Ok (fold_left (fun m y -> if lt y m then y else m) t0 x)

type fixed_cls = { f_precision : Big_int_Z.big_int;
                   f_display : Big_int_Z.big_int;
                   f_scale : Big_int_Z.big_int; f_scaled : Big_int_Z.big_int;
                   f_scaledd : Big_int_Z.big_int;
                   f_scaledr : Big_int_Z.big_int }

type guarded_cls = { g_precision : Big_int_Z.big_int;
                     g_guard : Big_int_Z.big_int;
                     g_display : Big_int_Z.big_int;
                     g_scale : Big_int_Z.big_int;
                     g_scalep : Big_int_Z.big_int;
                     g_scaleg : Big_int_Z.big_int;
                     g_scaled : Big_int_Z.big_int;
                     g_scaledd : Big_int_Z.big_int;
                     g_scaledr : Big_int_Z.big_int;
                     g_scaledg : Big_int_Z.big_int; g_geps : Big_int_Z.big_int }

type fmt_args =
| Fmt2 of Big_int_Z.big_int * Big_int_Z.big_int
| Fmt3 of Big_int_Z.big_int * Big_int_Z.big_int * Big_int_Z.big_int
| FmtInt of Big_int_Z.big_int
| FmtNeg of fmt_args

module NilEmpty =
 struct
  (** val string_of_uint : uint -> string **)

  let rec string_of_uint = function
  | Nil -> ""
  | D0 d0 ->
    (* If this appears, you're using String internals. Please don't *)
  (fun (c, s) -> String.make 1 c ^ s)

      ('0', (string_of_uint d0))
  | D1 d0 ->
    (* If this appears, you're using String internals. Please don't *)
  (fun (c, s) -> String.make 1 c ^ s)

      ('1', (string_of_uint d0))
  | D2 d0 ->
    (* If this appears, you're using String internals. Please don't *)
  (fun (c, s) -> String.make 1 c ^ s)

      ('2', (string_of_uint d0))
  | D3 d0 ->
    (* If this appears, you're using String internals. Please don't *)
  (fun (c, s) -> String.make 1 c ^ s)

      ('3', (string_of_uint d0))
  | D4 d0 ->
    (* If this appears, you're using String internals. Please don't *)
  (fun (c, s) -> String.make 1 c ^ s)

      ('4', (string_of_uint d0))
  | D5 d0 ->
    (* If this appears, you're using String internals. Please don't *)
  (fun (c, s) -> String.make 1 c ^ s)

      ('5', (string_of_uint d0))
  | D6 d0 ->
    (* If this appears, you're using String internals. Please don't *)
  (fun (c, s) -> String.make 1 c ^ s)

      ('6', (string_of_uint d0))
  | D7 d0 ->
    (* If this appears, you're using String internals. Please don't *)
  (fun (c, s) -> String.make 1 c ^ s)

      ('7', (string_of_uint d0))
  | D8 d0 ->
    (* If this appears, you're using String internals. Please don't *)
  (fun (c, s) -> String.make 1 c ^ s)

      ('8', (string_of_uint d0))
  | D9 d0 ->
    (* If this appears, you're using String internals. Please don't *)
  (fun (c, s) -> String.make 1 c ^ s)

      ('9', (string_of_uint d0))
 end

module NilZero =
 struct
  (** val string_of_uint : uint -> string **)

  let string_of_uint d = match d with
  | Nil -> "0"
  | _ -> NilEmpty.string_of_uint d

  (** val string_of_int : signed_int -> string **)

  let string_of_int = function
  | Pos d0 -> string_of_uint d0
  | Neg d0 ->
    (* If this appears, you're using String internals. Please don't *)
  (fun (c, s) -> String.make 1 c ^ s)

      ('-', (string_of_uint d0))
 end

(** val string_of_Z : Big_int_Z.big_int -> string **)

let string_of_Z z0 =
  NilZero.string_of_int (Z.to_int z0)

(** val zeros : nat -> string **)

let rec zeros = function
| O -> ""
| S k ->
  (* If this appears, you're using String internals. Please don't *)
  (fun (c, s) -> String.make 1 c ^ s)

    ('0', (zeros k))

(** val pad0 : Big_int_Z.big_int -> Big_int_Z.big_int -> string **)

let pad0 width z0 =
  let w = Z.to_nat width in
  if Z.ltb z0 Big_int_Z.zero_big_int
  then let d = string_of_Z (Z.opp z0) in
       (* If this appears, you're using String internals. Please don't *)
  (fun (c, s) -> String.make 1 c ^ s)

       ('-', ((^) (zeros (sub (sub w (S O)) (length d))) d))
  else let d = string_of_Z z0 in (^) (zeros (sub w (length d))) d

(** val render_fmt :
    Big_int_Z.big_int -> Big_int_Z.big_int -> fmt_args -> string **)

let rec render_fmt w1 w2 = function
| Fmt2 (a, b) -> (^) (string_of_Z a) ((^) "." (pad0 w1 b))
| Fmt3 (a, b, c) ->
  (^) (string_of_Z a) ((^) "." ((^) (pad0 w1 b) ((^) "_" (pad0 w2 c))))
| FmtInt a -> string_of_Z a
| FmtNeg g ->
  (* If this appears, you're using String internals. Please don't *)
  (fun (c, s) -> String.make 1 c ^ s)

    ('-', (render_fmt w1 w2 g))

(** val qfloor : q -> Big_int_Z.big_int **)

let qfloor x =
  let { qnum = n0; qden = d } = x in Z.div n0 d

(** val init_r : fixed_cls -> operand -> bool -> Big_int_Z.big_int res **)

let init_r st arg = function
| true -> let self_1 = operand_raw arg in Ok self_1
| false ->
  (match arg with
   | OInt arg_i_2 -> let self_4 = Z.mul arg_i_2 st.f_scale in Ok self_4
   | OVal arg_o_3 -> Ok arg_o_3)

(** val init : fixed_cls -> operand -> bool -> Big_int_Z.big_int **)

let init st arg setval =
  match init_r st arg setval with
  | Ok v -> v
  | Raise _ -> Big_int_Z.zero_big_int

(** val dunder_add :
    fixed_cls -> Big_int_Z.big_int -> operand -> Big_int_Z.big_int res **)

let dunder_add st self other =
  let v_1 = init st other false in let v_2 = Z.add v_1 self in Ok v_2

(** val dunder_sub :
    fixed_cls -> Big_int_Z.big_int -> operand -> Big_int_Z.big_int res **)

let dunder_sub st self other =
  let v_1 = init st other false in let v_2 = Z.sub self v_1 in Ok v_2

(** val dunder_neg :
    fixed_cls -> Big_int_Z.big_int -> Big_int_Z.big_int res **)

let dunder_neg st self =
  let v_1 = init st (OVal self) false in let v_2 = Z.opp v_1 in Ok v_2

(** val dunder_pos :
    fixed_cls -> Big_int_Z.big_int -> Big_int_Z.big_int res **)

let dunder_pos st self =
  Ok (init st (OVal self) false)

(** val dunder_bool : fixed_cls -> Big_int_Z.big_int -> bool res **)

let dunder_bool _ self =
  Ok (negb (Z.eqb self Big_int_Z.zero_big_int))

(** val dunder_abs :
    fixed_cls -> Big_int_Z.big_int -> Big_int_Z.big_int res **)

let dunder_abs st self =
  let v_1 = init st (OVal self) false in let v_2 = Z.abs v_1 in Ok v_2

(** val dunder_mul :
    fixed_cls -> Big_int_Z.big_int -> operand -> Big_int_Z.big_int res **)

let dunder_mul st self other =
  let v_1 = init st (OVal self) false in
  (match other with
   | OInt other_i_2 -> let v_4 = Z.mul v_1 other_i_2 in Ok v_4
   | OVal other_o_3 ->
     let v_5 = Z.mul v_1 other_o_3 in
     bind (pydiv v_5 st.f_scale) (fun v_6 -> Ok v_6))

(** val dunder_floordiv :
    fixed_cls -> Big_int_Z.big_int -> operand -> Big_int_Z.big_int res **)

let dunder_floordiv st self other =
  let v_1 = init st (OVal self) false in
  (match other with
   | OInt other_i_2 -> bind (pydiv v_1 other_i_2) (fun v_4 -> Ok v_4)
   | OVal other_o_3 ->
     let v_5 = Z.mul v_1 st.f_scale in
     bind (pydiv v_5 other_o_3) (fun v_6 -> Ok v_6))

(** val mul0 :
    fixed_cls -> operand -> operand -> rnd -> Big_int_Z.big_int res **)

let mul0 st arg1 arg2 round =
  let v1_1 = init st arg1 false in
  let v2_2 = init st arg2 false in
  if negb (rnd_in round (RDown :: (RUp :: [])))
  then Raise ValueError
  else bind (pydivmod (Z.mul v1_1 v2_2) st.f_scale) (fun x ->
         let (v1_3, rem_4) = x in
         if (&&) (truthy rem_4) (rnd_eqb round RUp)
         then let v1_5 = Z.add v1_3 Big_int_Z.unit_big_int in Ok v1_5
         else Ok v1_3)

(** val div0 :
    fixed_cls -> operand -> operand -> rnd -> Big_int_Z.big_int res **)

let div0 st arg1 arg2 round =
  let v1_1 = init st arg1 false in
  let v2_2 = init st arg2 false in
  if negb (rnd_in round (RDown :: (RUp :: [])))
  then Raise ValueError
  else bind (pydivmod (Z.mul v1_1 st.f_scale) v2_2) (fun x ->
         let (v1_3, rem_4) = x in
         if (&&) (truthy rem_4) (rnd_eqb round RUp)
         then let v1_5 = Z.add v1_3 Big_int_Z.unit_big_int in Ok v1_5
         else Ok v1_3)

(** val muldiv :
    fixed_cls -> operand -> operand -> operand -> rnd -> Big_int_Z.big_int res **)

let muldiv st arg1 arg2 arg3 round =
  let v1_1 = init st arg1 false in
  let v2_2 = init st arg2 false in
  let v3_3 = init st arg3 false in
  bind (pydivmod (Z.mul v1_1 v2_2) v3_3) (fun x ->
    let (v1_4, rem_5) = x in
    if negb (rnd_in round (RDown :: (RUp :: [])))
    then Raise ValueError
    else if (&&) (truthy rem_5) (rnd_eqb round RUp)
         then let v1_6 = Z.add v1_4 Big_int_Z.unit_big_int in Ok v1_6
         else Ok v1_4)

(** val dunder_eq : fixed_cls -> Big_int_Z.big_int -> operand -> bool res **)

let dunder_eq _ self other =
  bind (operand_value other) (fun other_v_1 -> Ok (Z.eqb self other_v_1))

(** val dunder_ne : fixed_cls -> Big_int_Z.big_int -> operand -> bool res **)

let dunder_ne _ self other =
  bind (operand_value other) (fun other_v_1 -> Ok
    (negb (Z.eqb self other_v_1)))

(** val dunder_lt : fixed_cls -> Big_int_Z.big_int -> operand -> bool res **)

let dunder_lt _ self other =
  bind (operand_value other) (fun other_v_1 -> Ok (Z.ltb self other_v_1))

(** val dunder_le : fixed_cls -> Big_int_Z.big_int -> operand -> bool res **)

let dunder_le _ self other =
  bind (operand_value other) (fun other_v_1 -> Ok (Z.leb self other_v_1))

(** val dunder_gt : fixed_cls -> Big_int_Z.big_int -> operand -> bool res **)

let dunder_gt _ self other =
  bind (operand_value other) (fun other_v_1 -> Ok (Z.ltb other_v_1 self))

(** val dunder_ge : fixed_cls -> Big_int_Z.big_int -> operand -> bool res **)

let dunder_ge _ self other =
  bind (operand_value other) (fun other_v_1 -> Ok (Z.leb other_v_1 self))

(** val min : fixed_cls -> Big_int_Z.big_int list -> Big_int_Z.big_int res **)

let min st vals =
  bind (py_min_by (fun a b -> res_true (dunder_lt st a (OVal b))) vals)
    (fun m_1 -> Ok m_1)

(** val dunder_str : fixed_cls -> Big_int_Z.big_int -> fmt_args res **)

let dunder_str st self =
  if Z.eqb st.f_precision Big_int_Z.zero_big_int
  then Ok (FmtInt self)
  else if Z.ltb st.f_display st.f_precision
       then let v_2 = Z.add self st.f_scaledr in
            bind (pydiv v_2 st.f_scaledd) (fun v_3 ->
              if Z.ltb v_3 Big_int_Z.zero_big_int
              then bind (pydiv (Z.opp v_3) st.f_scaled) (fun q_4 ->
                     bind (pymod (Z.opp v_3) st.f_scaled) (fun r_5 -> Ok
                       (FmtNeg (Fmt2 (q_4, r_5)))))
              else bind (pydiv v_3 st.f_scaled) (fun q_6 ->
                     bind (pymod v_3 st.f_scaled) (fun r_7 -> Ok (Fmt2 (q_6,
                       r_7)))))
       else if Z.ltb self Big_int_Z.zero_big_int
            then bind (pydiv (Z.opp self) st.f_scaled) (fun q_8 ->
                   bind (pymod (Z.opp self) st.f_scaled) (fun r_9 -> Ok
                     (FmtNeg (Fmt2 (q_8, r_9)))))
            else bind (pydiv self st.f_scaled) (fun q_10 ->
                   bind (pymod self st.f_scaled) (fun r_11 -> Ok (Fmt2 (q_10,
                     r_11))))

(** val dunder_truediv :
    fixed_cls -> Big_int_Z.big_int -> operand -> Big_int_Z.big_int res **)

let dunder_truediv =
  dunder_floordiv

(** val init_r0 : guarded_cls -> operand -> bool -> Big_int_Z.big_int res **)

let init_r0 st arg = function
| true -> let self_1 = operand_raw arg in Ok self_1
| false ->
  (match arg with
   | OInt arg_i_2 -> let self_4 = Z.mul arg_i_2 st.g_scale in Ok self_4
   | OVal arg_o_3 -> Ok arg_o_3)

(** val init0 : guarded_cls -> operand -> bool -> Big_int_Z.big_int **)

let init0 st arg setval =
  match init_r0 st arg setval with
  | Ok v -> v
  | Raise _ -> Big_int_Z.zero_big_int

(** val dunder_add0 :
    guarded_cls -> Big_int_Z.big_int -> operand -> Big_int_Z.big_int res **)

let dunder_add0 st self other =
  let v_1 = init0 st other false in Ok (init0 st (OInt (Z.add self v_1)) true)

(** val dunder_sub0 :
    guarded_cls -> Big_int_Z.big_int -> operand -> Big_int_Z.big_int res **)

let dunder_sub0 st self other =
  let v_1 = init0 st other false in Ok (init0 st (OInt (Z.sub self v_1)) true)

(** val dunder_neg0 :
    guarded_cls -> Big_int_Z.big_int -> Big_int_Z.big_int res **)

let dunder_neg0 st self =
  Ok (init0 st (OInt (Z.opp self)) true)

(** val dunder_pos0 :
    guarded_cls -> Big_int_Z.big_int -> Big_int_Z.big_int res **)

let dunder_pos0 st self =
  Ok (init0 st (OInt self) true)

(** val dunder_bool0 : guarded_cls -> Big_int_Z.big_int -> bool res **)

let dunder_bool0 _ self =
  Ok (negb (Z.eqb self Big_int_Z.zero_big_int))

(** val dunder_abs0 :
    guarded_cls -> Big_int_Z.big_int -> Big_int_Z.big_int res **)

let dunder_abs0 st self =
  Ok (init0 st (OInt (Z.abs self)) true)

(** val dunder_mul0 :
    guarded_cls -> Big_int_Z.big_int -> operand -> Big_int_Z.big_int res **)

let dunder_mul0 st self = function
| OInt other_i_1 -> Ok (init0 st (OInt (Z.mul self other_i_1)) true)
| OVal other_o_2 ->
  bind (pydiv (Z.mul self other_o_2) st.g_scale) (fun q_3 -> Ok
    (init0 st (OInt q_3) true))

(** val dunder_floordiv0 :
    guarded_cls -> Big_int_Z.big_int -> operand -> Big_int_Z.big_int res **)

let dunder_floordiv0 st self = function
| OInt other_i_1 ->
  bind (pydiv self other_i_1) (fun q_3 -> Ok (init0 st (OInt q_3) true))
| OVal other_o_2 ->
  bind (pydiv (Z.mul self st.g_scale) other_o_2) (fun q_4 -> Ok
    (init0 st (OInt q_4) true))

(** val mul1 :
    guarded_cls -> operand -> operand -> rnd -> Big_int_Z.big_int res **)

let mul1 st arg1 arg2 round =
  let v1_1 = init0 st arg1 false in
  let v2_2 = init0 st arg2 false in
  if truthy st.g_guard
  then bind (pydiv (Z.mul v1_1 v2_2) st.g_scale) (fun q_3 -> Ok q_3)
  else bind (pydivmod (Z.mul v1_1 v2_2) st.g_scale) (fun x ->
         let (v1_5, rem_6) = x in
         if (&&) (truthy rem_6) (rnd_eqb round RUp)
         then let v1_7 = Z.add v1_5 Big_int_Z.unit_big_int in Ok v1_7
         else Ok v1_5)

(** val div1 :
    guarded_cls -> operand -> operand -> rnd -> Big_int_Z.big_int res **)

let div1 st arg1 arg2 round =
  let v1_1 = init0 st arg1 false in
  let v2_2 = init0 st arg2 false in
  if truthy st.g_guard
  then bind (pydiv (Z.mul v1_1 st.g_scale) v2_2) (fun q_3 -> Ok q_3)
  else bind (pydivmod (Z.mul v1_1 st.g_scale) v2_2) (fun x ->
         let (v1_5, rem_6) = x in
         if (&&) (truthy rem_6) (rnd_eqb round RUp)
         then let v1_7 = Z.add v1_5 Big_int_Z.unit_big_int in Ok v1_7
         else Ok v1_5)

(** val muldiv0 :
    guarded_cls -> operand -> operand -> operand -> rnd -> Big_int_Z.big_int
    res **)

let muldiv0 st arg1 arg2 arg3 round =
  let v1_1 = init0 st arg1 false in
  let v2_2 = init0 st arg2 false in
  let v3_3 = init0 st arg3 false in
  if truthy st.g_guard
  then bind (pydiv (Z.mul v1_1 v2_2) v3_3) (fun q_4 -> Ok q_4)
  else bind (pydivmod (Z.mul v1_1 v2_2) v3_3) (fun x ->
         let (v1_6, rem_7) = x in
         if (&&) (truthy rem_7) (rnd_eqb round RUp)
         then let v1_8 = Z.add v1_6 Big_int_Z.unit_big_int in Ok v1_8
         else Ok v1_6)

(** val dunder_cmp :
    guarded_cls -> Big_int_Z.big_int -> operand -> Big_int_Z.big_int res **)

let dunder_cmp st self other =
  bind (operand_value other) (fun other_v_1 ->
    let gdiff_2 = Z.abs (Z.sub self other_v_1) in
    if Z.ltb gdiff_2 st.g_geps
    then Ok Big_int_Z.zero_big_int
    else bind (operand_value other) (fun other_v_3 ->
           if Z.ltb other_v_3 self
           then Ok Big_int_Z.unit_big_int
           else Ok (Z.opp Big_int_Z.unit_big_int)))

(** val dunder_eq0 :
    guarded_cls -> Big_int_Z.big_int -> operand -> bool res **)

let dunder_eq0 st self other =
  bind (dunder_cmp st self other) (fun c_1 -> Ok
    (Z.eqb c_1 Big_int_Z.zero_big_int))

(** val dunder_ne0 :
    guarded_cls -> Big_int_Z.big_int -> operand -> bool res **)

let dunder_ne0 st self other =
  bind (dunder_cmp st self other) (fun c_1 -> Ok
    (negb (Z.eqb c_1 Big_int_Z.zero_big_int)))

(** val dunder_lt0 :
    guarded_cls -> Big_int_Z.big_int -> operand -> bool res **)

let dunder_lt0 st self other =
  bind (dunder_cmp st self other) (fun c_1 -> Ok
    (Z.ltb c_1 Big_int_Z.zero_big_int))

(** val dunder_le0 :
    guarded_cls -> Big_int_Z.big_int -> operand -> bool res **)

let dunder_le0 st self other =
  bind (dunder_cmp st self other) (fun c_1 -> Ok
    (Z.leb c_1 Big_int_Z.zero_big_int))

(** val dunder_gt0 :
    guarded_cls -> Big_int_Z.big_int -> operand -> bool res **)

let dunder_gt0 st self other =
  bind (dunder_cmp st self other) (fun c_1 -> Ok
    (Z.ltb Big_int_Z.zero_big_int c_1))

(** val dunder_ge0 :
    guarded_cls -> Big_int_Z.big_int -> operand -> bool res **)

let dunder_ge0 st self other =
  bind (dunder_cmp st self other) (fun c_1 -> Ok
    (Z.leb Big_int_Z.zero_big_int c_1))

(** val min0 :
    guarded_cls -> Big_int_Z.big_int list -> Big_int_Z.big_int res **)

let min0 _ = function
| [] -> Raise IndexError
| x0 :: rest ->
  Ok
    (fold_left (fun acc val0 -> if Z.ltb val0 acc then val0 else acc) rest x0)

(** val dunder_str0 : guarded_cls -> Big_int_Z.big_int -> fmt_args res **)

let dunder_str0 st self =
  bind (pydiv (Z.add self st.g_scaledr) st.g_scaledd) (fun q_2 ->
    let neg_4 = Z.ltb q_2 Big_int_Z.zero_big_int in
    if neg_4
    then let gv_5 = Z.opp q_2 in
         if Z.leb st.g_display st.g_precision
         then bind (pydiv gv_5 st.g_scaled) (fun q_6 ->
                bind (pymod gv_5 st.g_scaled) (fun r_7 ->
                  let s_8 = Fmt2 (q_6, r_7) in
                  Ok (if neg_4 then FmtNeg s_8 else s_8)))
         else bind (pymod gv_5 st.g_scaled) (fun r_9 ->
                bind (pydiv gv_5 st.g_scaled) (fun q_11 ->
                  bind (pydiv r_9 st.g_scaledg) (fun q_12 ->
                    bind (pymod r_9 st.g_scaledg) (fun r_13 ->
                      let s_14 = Fmt3 (q_11, q_12, r_13) in
                      Ok (if neg_4 then FmtNeg s_14 else s_14)))))
    else if Z.leb st.g_display st.g_precision
         then bind (pydiv q_2 st.g_scaled) (fun q_15 ->
                bind (pymod q_2 st.g_scaled) (fun r_16 ->
                  let s_17 = Fmt2 (q_15, r_16) in
                  Ok (if neg_4 then FmtNeg s_17 else s_17)))
         else bind (pymod q_2 st.g_scaled) (fun r_18 ->
                bind (pydiv q_2 st.g_scaled) (fun q_20 ->
                  bind (pydiv r_18 st.g_scaledg) (fun q_21 ->
                    bind (pymod r_18 st.g_scaledg) (fun r_22 ->
                      let s_23 = Fmt3 (q_20, q_21, r_22) in
                      Ok (if neg_4 then FmtNeg s_23 else s_23))))))

(** val dunder_hash :
    guarded_cls -> Big_int_Z.big_int -> Big_int_Z.big_int res **)

let dunder_hash _ _ =
  Raise NotImplementedErr

(** val dunder_truediv0 :
    guarded_cls -> Big_int_Z.big_int -> operand -> Big_int_Z.big_int res **)

let dunder_truediv0 =
  dunder_floordiv0

(** val unres : 'a1 -> 'a1 res -> 'a1 **)

let unres d = function
| Ok a -> a
| Raise _ -> d

type arith = { of_int : (Big_int_Z.big_int -> __); add0 : (__ -> __ -> __);
               sub0 : (__ -> __ -> __); mulv : (__ -> __ -> __);
               divv : (__ -> __ -> __ res); floordivv : (__ -> __ -> __ res);
               kmul : (__ -> __ -> rnd -> __);
               kdiv : (__ -> __ -> rnd -> __ res);
               kmuldiv : (__ -> __ -> __ -> rnd -> __ res);
               eqv : (__ -> __ -> bool); ltv : (__ -> __ -> bool);
               lev : (__ -> __ -> bool); gtv : (__ -> __ -> bool);
               gev : (__ -> __ -> bool); truth : (__ -> bool);
               vmin : (__ list -> __ res); epsilon : __; exact : bool;
               aname : string; ainfo : string; str : (__ -> string);
               raw_repr : (__ -> string);
               areport : (string -> string -> string) }

type t = __

(** val nev : arith -> t -> t -> bool **)

let nev a a0 b =
  negb (a.eqv a0 b)

(** val fixed_display :
    Big_int_Z.big_int -> Big_int_Z.big_int -> Big_int_Z.big_int **)

let fixed_display p d0 =
  if (||) (Z.ltb d0 Big_int_Z.zero_big_int) (Z.ltb p d0) then p else d0

(** val mk_fixed_cls : Big_int_Z.big_int -> Big_int_Z.big_int -> fixed_cls **)

let mk_fixed_cls p d0 =
  let d = fixed_display p d0 in
  { f_precision = p; f_display = d; f_scale =
  (Z.pow (Big_int_Z.mult_int_big_int 2
    ((fun x -> Big_int_Z.succ_big_int (Big_int_Z.mult_int_big_int 2 x))
    (Big_int_Z.mult_int_big_int 2 Big_int_Z.unit_big_int))) p); f_scaled =
  (Z.pow (Big_int_Z.mult_int_big_int 2
    ((fun x -> Big_int_Z.succ_big_int (Big_int_Z.mult_int_big_int 2 x))
    (Big_int_Z.mult_int_big_int 2 Big_int_Z.unit_big_int))) d); f_scaledd =
  (Z.pow (Big_int_Z.mult_int_big_int 2
    ((fun x -> Big_int_Z.succ_big_int (Big_int_Z.mult_int_big_int 2 x))
    (Big_int_Z.mult_int_big_int 2 Big_int_Z.unit_big_int))) (Z.sub p d));
  f_scaledr =
  (Z.div
    (Z.pow (Big_int_Z.mult_int_big_int 2
      ((fun x -> Big_int_Z.succ_big_int (Big_int_Z.mult_int_big_int 2 x))
      (Big_int_Z.mult_int_big_int 2 Big_int_Z.unit_big_int))) (Z.sub p d))
    (Big_int_Z.mult_int_big_int 2 Big_int_Z.unit_big_int)) }

(** val fixed_str : fixed_cls -> Big_int_Z.big_int -> string **)

let fixed_str st v =
  match dunder_str st v with
  | Ok f -> render_fmt st.f_display Big_int_Z.zero_big_int f
  | Raise _ -> "<exception>"

(** val fixed_info : Big_int_Z.big_int -> Big_int_Z.big_int -> string **)

let fixed_info p d =
  if Z.eqb p Big_int_Z.zero_big_int
  then "integer arithmetic"
  else if negb (Z.eqb d p)
       then (^) "fixed-point decimal arithmetic ("
              ((^) (string_of_Z p)
                ((^) " places, " ((^) (string_of_Z d) " displayed)")))
       else (^) "fixed-point decimal arithmetic ("
              ((^) (string_of_Z p) " places)")

(** val fixed : Big_int_Z.big_int -> Big_int_Z.big_int -> arith **)

let fixed p d =
  let st = mk_fixed_cls p d in
  { of_int = (fun n0 -> Obj.magic init st (OInt n0) false); add0 =
  (fun a b ->
  unres (Obj.magic Big_int_Z.zero_big_int)
    (Obj.magic dunder_add st a (OVal (Obj.magic b)))); sub0 = (fun a b ->
  unres (Obj.magic Big_int_Z.zero_big_int)
    (Obj.magic dunder_sub st a (OVal (Obj.magic b)))); mulv = (fun a b ->
  unres (Obj.magic Big_int_Z.zero_big_int)
    (Obj.magic dunder_mul st a (OVal (Obj.magic b)))); divv = (fun a b ->
  Obj.magic dunder_truediv st a (OVal (Obj.magic b))); floordivv =
  (fun a b -> Obj.magic dunder_floordiv st a (OVal (Obj.magic b))); kmul =
  (fun a b r ->
  unres (Obj.magic Big_int_Z.zero_big_int)
    (Obj.magic mul0 st (OVal (Obj.magic a)) (OVal (Obj.magic b)) r)); kdiv =
  (fun a b r ->
  Obj.magic div0 st (OVal (Obj.magic a)) (OVal (Obj.magic b)) r); kmuldiv =
  (fun a b c r ->
  Obj.magic muldiv st (OVal (Obj.magic a)) (OVal (Obj.magic b)) (OVal
    (Obj.magic c)) r); eqv = (fun a b ->
  res_true (dunder_eq st (Obj.magic a) (OVal (Obj.magic b)))); ltv =
  (fun a b -> res_true (dunder_lt st (Obj.magic a) (OVal (Obj.magic b))));
  lev = (fun a b ->
  res_true (dunder_le st (Obj.magic a) (OVal (Obj.magic b)))); gtv =
  (fun a b -> res_true (dunder_gt st (Obj.magic a) (OVal (Obj.magic b))));
  gev = (fun a b ->
  res_true (dunder_ge st (Obj.magic a) (OVal (Obj.magic b)))); truth =
  (fun a -> res_true (dunder_bool st (Obj.magic a))); vmin =
  (Obj.magic min st); epsilon = (Obj.magic Big_int_Z.unit_big_int); exact =
  false; aname =
  (if Z.eqb p Big_int_Z.zero_big_int then "integer" else "fixed"); ainfo =
  (fixed_info p (fixed_display p d)); str = (Obj.magic fixed_str st);
  raw_repr = (Obj.magic string_of_Z); areport = (fun _ _ -> "") }

(** val mk_guarded_cls :
    Big_int_Z.big_int -> Big_int_Z.big_int -> Big_int_Z.big_int ->
    Big_int_Z.big_int -> guarded_cls **)

let mk_guarded_cls p g d0 stale =
  let d = if Z.ltb (Z.add p g) d0 then Z.add p g else d0 in
  let geps0 =
    Z.div
      (Z.pow (Big_int_Z.mult_int_big_int 2
        ((fun x -> Big_int_Z.succ_big_int (Big_int_Z.mult_int_big_int 2 x))
        (Big_int_Z.mult_int_big_int 2 Big_int_Z.unit_big_int))) g)
      (Big_int_Z.mult_int_big_int 2 Big_int_Z.unit_big_int)
  in
  { g_precision = p; g_guard = g; g_display = d; g_scale =
  (Z.pow (Big_int_Z.mult_int_big_int 2
    ((fun x -> Big_int_Z.succ_big_int (Big_int_Z.mult_int_big_int 2 x))
    (Big_int_Z.mult_int_big_int 2 Big_int_Z.unit_big_int))) (Z.add p g));
  g_scalep =
  (Z.pow (Big_int_Z.mult_int_big_int 2
    ((fun x -> Big_int_Z.succ_big_int (Big_int_Z.mult_int_big_int 2 x))
    (Big_int_Z.mult_int_big_int 2 Big_int_Z.unit_big_int))) p); g_scaleg =
  (Z.pow (Big_int_Z.mult_int_big_int 2
    ((fun x -> Big_int_Z.succ_big_int (Big_int_Z.mult_int_big_int 2 x))
    (Big_int_Z.mult_int_big_int 2 Big_int_Z.unit_big_int))) g); g_scaled =
  (Z.pow (Big_int_Z.mult_int_big_int 2
    ((fun x -> Big_int_Z.succ_big_int (Big_int_Z.mult_int_big_int 2 x))
    (Big_int_Z.mult_int_big_int 2 Big_int_Z.unit_big_int))) d); g_scaledd =
  (Z.pow (Big_int_Z.mult_int_big_int 2
    ((fun x -> Big_int_Z.succ_big_int (Big_int_Z.mult_int_big_int 2 x))
    (Big_int_Z.mult_int_big_int 2 Big_int_Z.unit_big_int)))
    (Z.sub (Z.add g p) d)); g_scaledr =
  (Z.div
    (Z.pow (Big_int_Z.mult_int_big_int 2
      ((fun x -> Big_int_Z.succ_big_int (Big_int_Z.mult_int_big_int 2 x))
      (Big_int_Z.mult_int_big_int 2 Big_int_Z.unit_big_int)))
      (Z.sub (Z.add g p) d)) (Big_int_Z.mult_int_big_int 2
    Big_int_Z.unit_big_int)); g_scaledg =
  (if Z.ltb p d
   then Z.pow (Big_int_Z.mult_int_big_int 2
          ((fun x -> Big_int_Z.succ_big_int (Big_int_Z.mult_int_big_int 2 x))
          (Big_int_Z.mult_int_big_int 2 Big_int_Z.unit_big_int))) (Z.sub d p)
   else stale); g_geps =
  (if Z.eqb geps0 Big_int_Z.zero_big_int
   then Big_int_Z.unit_big_int
   else geps0) }

(** val guarded_str : guarded_cls -> Big_int_Z.big_int -> string **)

let guarded_str st v =
  match dunder_str0 st v with
  | Ok f ->
    if Z.leb st.g_display st.g_precision
    then render_fmt st.g_display Big_int_Z.zero_big_int f
    else render_fmt st.g_precision (Z.sub st.g_display st.g_precision) f
  | Raise _ -> "<exception>"

(** val guarded_info :
    Big_int_Z.big_int -> Big_int_Z.big_int -> Big_int_Z.big_int -> string **)

let guarded_info p g d =
  if negb (Z.eqb d p)
  then (^) "guarded-precision fixed-point decimal arithmetic ("
         ((^) (string_of_Z p)
           ((^) "+"
             ((^) (string_of_Z g)
               ((^) " places; " ((^) (string_of_Z d) " displayed)")))))
  else (^) "guarded-precision fixed-point decimal arithmetic ("
         ((^) (string_of_Z p) ((^) "+" ((^) (string_of_Z g) " places)")))

(** val tab : string **)

let tab =
  (* If this appears, you're using String internals. Please don't *)
  (fun (c, s) -> String.make 1 c ^ s)

    ((ascii_of_nat (S (S (S (S (S (S (S (S (S O)))))))))), "")

(** val nl : string **)

let nl =
  (* If this appears, you're using String internals. Please don't *)
  (fun (c, s) -> String.make 1 c ^ s)

    ((ascii_of_nat (S (S (S (S (S (S (S (S (S (S O))))))))))), "")

(** val guarded_report : guarded_cls -> string -> string -> string **)

let guarded_report st maxd mind =
  (^) tab
    ((^) "maxDiff: "
      ((^) maxd
        ((^) "  (s/b << geps)"
          ((^) nl
            ((^) tab
              ((^) "geps:    "
                ((^) (string_of_Z st.g_geps)
                  ((^) nl
                    ((^) tab
                      ((^) "minDiff: "
                        ((^) mind
                          ((^) "  (s/b >> geps)"
                            ((^) nl
                              ((^) tab
                                ((^) "guard:   "
                                  ((^) (string_of_Z st.g_scaleg)
                                    ((^) nl
                                      ((^) tab
                                        ((^) "prec:    "
                                          ((^) (string_of_Z st.g_scale)
                                            ((^) nl nl)))))))))))))))))))))

(** val guarded :
    Big_int_Z.big_int -> Big_int_Z.big_int -> Big_int_Z.big_int ->
    Big_int_Z.big_int -> arith **)

let guarded p g d stale =
  let st = mk_guarded_cls p g d stale in
  { of_int = (fun n0 -> Obj.magic init0 st (OInt n0) false); add0 =
  (fun a b ->
  unres (Obj.magic Big_int_Z.zero_big_int)
    (Obj.magic dunder_add0 st a (OVal (Obj.magic b)))); sub0 = (fun a b ->
  unres (Obj.magic Big_int_Z.zero_big_int)
    (Obj.magic dunder_sub0 st a (OVal (Obj.magic b)))); mulv = (fun a b ->
  unres (Obj.magic Big_int_Z.zero_big_int)
    (Obj.magic dunder_mul0 st a (OVal (Obj.magic b)))); divv = (fun a b ->
  Obj.magic dunder_truediv0 st a (OVal (Obj.magic b))); floordivv =
  (fun a b -> Obj.magic dunder_floordiv0 st a (OVal (Obj.magic b))); kmul =
  (fun a b r ->
  unres (Obj.magic Big_int_Z.zero_big_int)
    (Obj.magic mul1 st (OVal (Obj.magic a)) (OVal (Obj.magic b)) r)); kdiv =
  (fun a b r ->
  Obj.magic div1 st (OVal (Obj.magic a)) (OVal (Obj.magic b)) r); kmuldiv =
  (fun a b c r ->
  Obj.magic muldiv0 st (OVal (Obj.magic a)) (OVal (Obj.magic b)) (OVal
    (Obj.magic c)) r); eqv = (fun a b ->
  res_true (dunder_eq0 st (Obj.magic a) (OVal (Obj.magic b)))); ltv =
  (fun a b -> res_true (dunder_lt0 st (Obj.magic a) (OVal (Obj.magic b))));
  lev = (fun a b ->
  res_true (dunder_le0 st (Obj.magic a) (OVal (Obj.magic b)))); gtv =
  (fun a b -> res_true (dunder_gt0 st (Obj.magic a) (OVal (Obj.magic b))));
  gev = (fun a b ->
  res_true (dunder_ge0 st (Obj.magic a) (OVal (Obj.magic b)))); truth =
  (fun a -> res_true (dunder_bool0 st (Obj.magic a))); vmin =
  (Obj.magic min0 st); epsilon = (Obj.magic Big_int_Z.unit_big_int); exact =
  (negb (Z.eqb g Big_int_Z.zero_big_int)); aname = "guarded"; ainfo =
  (guarded_info p g st.g_display); str = (Obj.magic guarded_str st);
  raw_repr = (Obj.magic string_of_Z); areport = (guarded_report st) }

(** val qz : q -> bool **)

let qz q0 =
  Z.eqb q0.qnum Big_int_Z.zero_big_int

(** val q_div : q -> q -> q res **)

let q_div a b =
  if qz b then Raise ZeroDivisionError else Ok (qred (qdiv a b))

(** val q_floordiv : q -> q -> q res **)

let q_floordiv a b =
  if qz b then Raise ZeroDivisionError else Ok (inject_Z (qfloor (qdiv a b)))

(** val q_lt : q -> q -> bool **)

let q_lt a b =
  match qcompare a b with
  | Lt -> true
  | _ -> false

(** val q_le : q -> q -> bool **)

let q_le a b =
  match qcompare a b with
  | Gt -> false
  | _ -> true

(** val rational_fmt : Big_int_Z.big_int -> q -> fmt_args **)

let rational_fmt dp q0 =
  let q1 = qred q0 in
  let dps =
    Z.pow (Big_int_Z.mult_int_big_int 2
      ((fun x -> Big_int_Z.succ_big_int (Big_int_Z.mult_int_big_int 2 x))
      (Big_int_Z.mult_int_big_int 2 Big_int_Z.unit_big_int))) dp
  in
  let v =
    if (||) (Z.eqb q1.qnum Big_int_Z.zero_big_int)
         (Z.eqb q1.qden Big_int_Z.unit_big_int)
    then Z.mul q1.qnum dps
    else let w =
           qred
             (qplus q1
               (qred { qnum = Big_int_Z.unit_big_int; qden =
                 (Z.to_pos
                   (Z.mul dps (Big_int_Z.mult_int_big_int 2
                     Big_int_Z.unit_big_int))) }))
         in
         Z.div (Z.mul w.qnum dps) w.qden
  in
  if Z.ltb v Big_int_Z.zero_big_int
  then FmtNeg (Fmt2 ((Z.div (Z.opp v) dps), (Z.modulo (Z.opp v) dps)))
  else Fmt2 ((Z.div v dps), (Z.modulo v dps))

(** val rational_str : Big_int_Z.big_int -> q -> string **)

let rational_str dp q0 =
  render_fmt dp Big_int_Z.zero_big_int (rational_fmt dp q0)

(** val rational : Big_int_Z.big_int -> arith **)

let rational dp =
  { of_int = (fun n0 -> Obj.magic inject_Z n0); add0 = (fun a b ->
    Obj.magic qred (qplus (Obj.magic a) (Obj.magic b))); sub0 = (fun a b ->
    Obj.magic qred (qminus (Obj.magic a) (Obj.magic b))); mulv = (fun a b ->
    Obj.magic qred (qmult (Obj.magic a) (Obj.magic b))); divv =
    (Obj.magic q_div); floordivv = (Obj.magic q_floordiv); kmul =
    (fun a b _ -> Obj.magic qred (qmult (Obj.magic a) (Obj.magic b))); kdiv =
    (fun a b _ -> Obj.magic q_div a b); kmuldiv = (fun a b c _ ->
    Obj.magic q_div (qred (qmult (Obj.magic a) (Obj.magic b))) c); eqv =
    (Obj.magic qeq_bool); ltv = (Obj.magic q_lt); lev = (Obj.magic q_le);
    gtv = (fun a b -> q_lt (Obj.magic b) (Obj.magic a)); gev = (fun a b ->
    q_le (Obj.magic b) (Obj.magic a)); truth = (fun a ->
    negb (qz (Obj.magic a))); vmin = (py_min_by (Obj.magic q_lt)); epsilon =
    (Obj.magic { qnum = Big_int_Z.zero_big_int; qden =
      Big_int_Z.unit_big_int }); exact = true; aname = "rational"; ainfo =
    "rational arithmetic"; str = (Obj.magic rational_str dp); raw_repr =
    (fun q0 ->
    let r = qred (Obj.magic q0) in
    (^) (string_of_Z r.qnum) ((^) "/" (string_of_Z r.qden))); areport =
    (fun _ _ -> "") }

type tok =
| TI of Big_int_Z.big_int
| TS of string

(** val exn_name : exn -> string **)

let exn_name = function
| ZeroDivisionError -> "ZeroDivisionError"
| ValueError -> "ValueError"
| IndexError -> "IndexError"
| TypeError -> "TypeError"
| AttributeError -> "AttributeError"
| AssertionError -> "AssertionError"
| KeyError -> "KeyError"
| UnboundLocalError -> "UnboundLocalError"
| OverflowError -> "OverflowError"
| NotImplementedErr -> "NotImplementedError"
| UsageError -> "UsageError"
| ElectionError -> "ElectionError"
| ElectionProfileError -> "ElectionProfileError"

(** val show_resZ : Big_int_Z.big_int res -> string **)

let show_resZ = function
| Ok z0 -> (^) "ok " (string_of_Z z0)
| Raise e -> (^) "exn " (exn_name e)

(** val show_resB : bool res -> string **)

let show_resB = function
| Ok a -> if a then "bool 1" else "bool 0"
| Raise e -> (^) "exn " (exn_name e)

(** val mk_operand : Big_int_Z.big_int -> Big_int_Z.big_int -> operand **)

let mk_operand kind v =
  if Z.eqb kind Big_int_Z.zero_big_int then OInt v else OVal v

(** val mk_rnd : Big_int_Z.big_int -> rnd **)

let mk_rnd z0 =
  if Z.eqb z0 Big_int_Z.zero_big_int
  then RDown
  else if Z.eqb z0 Big_int_Z.unit_big_int
       then RUp
       else if Z.eqb z0 (Big_int_Z.mult_int_big_int 2 Big_int_Z.unit_big_int)
            then RNone
            else ROther

(** val toks_ints : tok list -> Big_int_Z.big_int list **)

let rec toks_ints = function
| [] -> []
| t0 :: t1 ->
  (match t0 with
   | TI z0 -> z0 :: (toks_ints t1)
   | TS _ -> toks_ints t1)

(** val run_fixed :
    Big_int_Z.big_int -> Big_int_Z.big_int -> Big_int_Z.big_int ->
    Big_int_Z.big_int -> Big_int_Z.big_int -> Big_int_Z.big_int ->
    Big_int_Z.big_int -> Big_int_Z.big_int -> Big_int_Z.big_int ->
    Big_int_Z.big_int -> Big_int_Z.big_int list -> string **)

let run_fixed p d op rn ka a kb b kc c rest =
  let st = mk_fixed_cls p d in
  let a0 = mk_operand ka a in
  let b0 = mk_operand kb b in
  let c0 = mk_operand kc c in
  let r = mk_rnd rn in
  ((fun fO fp fn z -> let s = Big_int_Z.sign_big_int z in
  if s = 0 then fO () else if s > 0 then fp z
  else fn (Big_int_Z.minus_big_int z))
     (fun _ -> show_resZ (init_r st a0 false))
     (fun p0 ->
     (fun f2p1 f2p f1 p ->
  if Big_int_Z.le_big_int p Big_int_Z.unit_big_int then f1 () else
  let (q,r) = Big_int_Z.quomod_big_int p (Big_int_Z.big_int_of_int 2) in
  if Big_int_Z.eq_big_int r Big_int_Z.zero_big_int then f2p q else f2p1 q)
       (fun p1 ->
       (fun f2p1 f2p f1 p ->
  if Big_int_Z.le_big_int p Big_int_Z.unit_big_int then f1 () else
  let (q,r) = Big_int_Z.quomod_big_int p (Big_int_Z.big_int_of_int 2) in
  if Big_int_Z.eq_big_int r Big_int_Z.zero_big_int then f2p q else f2p1 q)
         (fun p2 ->
         (fun f2p1 f2p f1 p ->
  if Big_int_Z.le_big_int p Big_int_Z.unit_big_int then f1 () else
  let (q,r) = Big_int_Z.quomod_big_int p (Big_int_Z.big_int_of_int 2) in
  if Big_int_Z.eq_big_int r Big_int_Z.zero_big_int then f2p q else f2p1 q)
           (fun p3 ->
           (fun f2p1 f2p f1 p ->
  if Big_int_Z.le_big_int p Big_int_Z.unit_big_int then f1 () else
  let (q,r) = Big_int_Z.quomod_big_int p (Big_int_Z.big_int_of_int 2) in
  if Big_int_Z.eq_big_int r Big_int_Z.zero_big_int then f2p q else f2p1 q)
             (fun _ -> "badop")
             (fun _ -> "badop")
             (fun _ -> show_resB (dunder_lt st a b0))
             p3)
           (fun p3 ->
           (fun f2p1 f2p f1 p ->
  if Big_int_Z.le_big_int p Big_int_Z.unit_big_int then f1 () else
  let (q,r) = Big_int_Z.quomod_big_int p (Big_int_Z.big_int_of_int 2) in
  if Big_int_Z.eq_big_int r Big_int_Z.zero_big_int then f2p q else f2p1 q)
             (fun _ -> "badop")
             (fun _ -> "badop")
             (fun _ -> show_resZ (div0 st a0 b0 r))
             p3)
           (fun _ -> show_resZ (dunder_mul st a b0))
           p2)
         (fun p2 ->
         (fun f2p1 f2p f1 p ->
  if Big_int_Z.le_big_int p Big_int_Z.unit_big_int then f1 () else
  let (q,r) = Big_int_Z.quomod_big_int p (Big_int_Z.big_int_of_int 2) in
  if Big_int_Z.eq_big_int r Big_int_Z.zero_big_int then f2p q else f2p1 q)
           (fun p3 ->
           (fun f2p1 f2p f1 p ->
  if Big_int_Z.le_big_int p Big_int_Z.unit_big_int then f1 () else
  let (q,r) = Big_int_Z.quomod_big_int p (Big_int_Z.big_int_of_int 2) in
  if Big_int_Z.eq_big_int r Big_int_Z.zero_big_int then f2p q else f2p1 q)
             (fun _ -> "badop")
             (fun p4 ->
             (fun f2p1 f2p f1 p ->
  if Big_int_Z.le_big_int p Big_int_Z.unit_big_int then f1 () else
  let (q,r) = Big_int_Z.quomod_big_int p (Big_int_Z.big_int_of_int 2) in
  if Big_int_Z.eq_big_int r Big_int_Z.zero_big_int then f2p q else f2p1 q)
               (fun _ -> "badop")
               (fun _ -> "badop")
               (fun _ -> (^) "str " ((fixed p d).str (Obj.magic a)))
               p4)
             (fun _ -> show_resB (dunder_eq st a b0))
             p3)
           (fun p3 ->
           (fun f2p1 f2p f1 p ->
  if Big_int_Z.le_big_int p Big_int_Z.unit_big_int then f1 () else
  let (q,r) = Big_int_Z.quomod_big_int p (Big_int_Z.big_int_of_int 2) in
  if Big_int_Z.eq_big_int r Big_int_Z.zero_big_int then f2p q else f2p1 q)
             (fun _ -> "badop")
             (fun p4 ->
             (fun f2p1 f2p f1 p ->
  if Big_int_Z.le_big_int p Big_int_Z.unit_big_int then f1 () else
  let (q,r) = Big_int_Z.quomod_big_int p (Big_int_Z.big_int_of_int 2) in
  if Big_int_Z.eq_big_int r Big_int_Z.zero_big_int then f2p q else f2p1 q)
               (fun _ -> "badop")
               (fun _ -> "badop")
               (fun _ -> show_resB (dunder_gt st a b0))
               p4)
             (fun _ -> show_resZ (dunder_truediv st a b0))
             p3)
           (fun _ -> show_resZ (dunder_abs st a))
           p2)
         (fun _ -> show_resZ (dunder_neg st a))
         p1)
       (fun p1 ->
       (fun f2p1 f2p f1 p ->
  if Big_int_Z.le_big_int p Big_int_Z.unit_big_int then f1 () else
  let (q,r) = Big_int_Z.quomod_big_int p (Big_int_Z.big_int_of_int 2) in
  if Big_int_Z.eq_big_int r Big_int_Z.zero_big_int then f2p q else f2p1 q)
         (fun p2 ->
         (fun f2p1 f2p f1 p ->
  if Big_int_Z.le_big_int p Big_int_Z.unit_big_int then f1 () else
  let (q,r) = Big_int_Z.quomod_big_int p (Big_int_Z.big_int_of_int 2) in
  if Big_int_Z.eq_big_int r Big_int_Z.zero_big_int then f2p q else f2p1 q)
           (fun p3 ->
           (fun f2p1 f2p f1 p ->
  if Big_int_Z.le_big_int p Big_int_Z.unit_big_int then f1 () else
  let (q,r) = Big_int_Z.quomod_big_int p (Big_int_Z.big_int_of_int 2) in
  if Big_int_Z.eq_big_int r Big_int_Z.zero_big_int then f2p q else f2p1 q)
             (fun _ -> "badop")
             (fun _ -> "badop")
             (fun _ -> show_resB (dunder_ne st a b0))
             p3)
           (fun p3 ->
           (fun f2p1 f2p f1 p ->
  if Big_int_Z.le_big_int p Big_int_Z.unit_big_int then f1 () else
  let (q,r) = Big_int_Z.quomod_big_int p (Big_int_Z.big_int_of_int 2) in
  if Big_int_Z.eq_big_int r Big_int_Z.zero_big_int then f2p q else f2p1 q)
             (fun _ -> "badop")
             (fun p4 ->
             (fun f2p1 f2p f1 p ->
  if Big_int_Z.le_big_int p Big_int_Z.unit_big_int then f1 () else
  let (q,r) = Big_int_Z.quomod_big_int p (Big_int_Z.big_int_of_int 2) in
  if Big_int_Z.eq_big_int r Big_int_Z.zero_big_int then f2p q else f2p1 q)
               (fun _ -> "badop")
               (fun _ -> "badop")
               (fun _ -> show_resB (dunder_ge st a b0))
               p4)
             (fun _ -> show_resZ (mul0 st a0 b0 r))
             p3)
           (fun _ -> show_resB (dunder_bool st a))
           p2)
         (fun p2 ->
         (fun f2p1 f2p f1 p ->
  if Big_int_Z.le_big_int p Big_int_Z.unit_big_int then f1 () else
  let (q,r) = Big_int_Z.quomod_big_int p (Big_int_Z.big_int_of_int 2) in
  if Big_int_Z.eq_big_int r Big_int_Z.zero_big_int then f2p q else f2p1 q)
           (fun p3 ->
           (fun f2p1 f2p f1 p ->
  if Big_int_Z.le_big_int p Big_int_Z.unit_big_int then f1 () else
  let (q,r) = Big_int_Z.quomod_big_int p (Big_int_Z.big_int_of_int 2) in
  if Big_int_Z.eq_big_int r Big_int_Z.zero_big_int then f2p q else f2p1 q)
             (fun _ -> "badop")
             (fun p4 ->
             (fun f2p1 f2p f1 p ->
  if Big_int_Z.le_big_int p Big_int_Z.unit_big_int then f1 () else
  let (q,r) = Big_int_Z.quomod_big_int p (Big_int_Z.big_int_of_int 2) in
  if Big_int_Z.eq_big_int r Big_int_Z.zero_big_int then f2p q else f2p1 q)
               (fun _ -> "badop")
               (fun _ -> "badop")
               (fun _ -> show_resZ (min st rest))
               p4)
             (fun _ -> show_resZ (muldiv st a0 b0 c0 r))
             p3)
           (fun p3 ->
           (fun f2p1 f2p f1 p ->
  if Big_int_Z.le_big_int p Big_int_Z.unit_big_int then f1 () else
  let (q,r) = Big_int_Z.quomod_big_int p (Big_int_Z.big_int_of_int 2) in
  if Big_int_Z.eq_big_int r Big_int_Z.zero_big_int then f2p q else f2p1 q)
             (fun _ -> "badop")
             (fun p4 ->
             (fun f2p1 f2p f1 p ->
  if Big_int_Z.le_big_int p Big_int_Z.unit_big_int then f1 () else
  let (q,r) = Big_int_Z.quomod_big_int p (Big_int_Z.big_int_of_int 2) in
  if Big_int_Z.eq_big_int r Big_int_Z.zero_big_int then f2p q else f2p1 q)
               (fun _ -> "badop")
               (fun _ -> "badop")
               (fun _ -> show_resB (dunder_le st a b0))
               p4)
             (fun _ -> show_resZ (dunder_floordiv st a b0))
             p3)
           (fun _ -> show_resZ (dunder_pos st a))
           p2)
         (fun _ -> show_resZ (dunder_sub st a b0))
         p1)
       (fun _ -> show_resZ (dunder_add st a b0))
       p0)
     (fun _ -> "badop")
     op)

(** val run_guarded :
    Big_int_Z.big_int -> Big_int_Z.big_int -> Big_int_Z.big_int ->
    Big_int_Z.big_int -> Big_int_Z.big_int -> Big_int_Z.big_int ->
    Big_int_Z.big_int -> Big_int_Z.big_int -> Big_int_Z.big_int ->
    Big_int_Z.big_int -> Big_int_Z.big_int -> Big_int_Z.big_int ->
    Big_int_Z.big_int list -> string **)

let run_guarded p g d stale op rn ka a kb b kc c rest =
  let st = mk_guarded_cls p g d stale in
  let a0 = mk_operand ka a in
  let b0 = mk_operand kb b in
  let c0 = mk_operand kc c in
  let r = mk_rnd rn in
  ((fun fO fp fn z -> let s = Big_int_Z.sign_big_int z in
  if s = 0 then fO () else if s > 0 then fp z
  else fn (Big_int_Z.minus_big_int z))
     (fun _ -> show_resZ (init_r0 st a0 false))
     (fun p0 ->
     (fun f2p1 f2p f1 p ->
  if Big_int_Z.le_big_int p Big_int_Z.unit_big_int then f1 () else
  let (q,r) = Big_int_Z.quomod_big_int p (Big_int_Z.big_int_of_int 2) in
  if Big_int_Z.eq_big_int r Big_int_Z.zero_big_int then f2p q else f2p1 q)
       (fun p1 ->
       (fun f2p1 f2p f1 p ->
  if Big_int_Z.le_big_int p Big_int_Z.unit_big_int then f1 () else
  let (q,r) = Big_int_Z.quomod_big_int p (Big_int_Z.big_int_of_int 2) in
  if Big_int_Z.eq_big_int r Big_int_Z.zero_big_int then f2p q else f2p1 q)
         (fun p2 ->
         (fun f2p1 f2p f1 p ->
  if Big_int_Z.le_big_int p Big_int_Z.unit_big_int then f1 () else
  let (q,r) = Big_int_Z.quomod_big_int p (Big_int_Z.big_int_of_int 2) in
  if Big_int_Z.eq_big_int r Big_int_Z.zero_big_int then f2p q else f2p1 q)
           (fun p3 ->
           (fun f2p1 f2p f1 p ->
  if Big_int_Z.le_big_int p Big_int_Z.unit_big_int then f1 () else
  let (q,r) = Big_int_Z.quomod_big_int p (Big_int_Z.big_int_of_int 2) in
  if Big_int_Z.eq_big_int r Big_int_Z.zero_big_int then f2p q else f2p1 q)
             (fun _ -> "badop")
             (fun _ -> "badop")
             (fun _ -> show_resB (dunder_lt0 st a b0))
             p3)
           (fun p3 ->
           (fun f2p1 f2p f1 p ->
  if Big_int_Z.le_big_int p Big_int_Z.unit_big_int then f1 () else
  let (q,r) = Big_int_Z.quomod_big_int p (Big_int_Z.big_int_of_int 2) in
  if Big_int_Z.eq_big_int r Big_int_Z.zero_big_int then f2p q else f2p1 q)
             (fun _ -> "badop")
             (fun p4 ->
             (fun f2p1 f2p f1 p ->
  if Big_int_Z.le_big_int p Big_int_Z.unit_big_int then f1 () else
  let (q,r) = Big_int_Z.quomod_big_int p (Big_int_Z.big_int_of_int 2) in
  if Big_int_Z.eq_big_int r Big_int_Z.zero_big_int then f2p q else f2p1 q)
               (fun _ -> "badop")
               (fun _ -> "badop")
               (fun _ -> show_resZ (dunder_cmp st a b0))
               p4)
             (fun _ -> show_resZ (div1 st a0 b0 r))
             p3)
           (fun _ -> show_resZ (dunder_mul0 st a b0))
           p2)
         (fun p2 ->
         (fun f2p1 f2p f1 p ->
  if Big_int_Z.le_big_int p Big_int_Z.unit_big_int then f1 () else
  let (q,r) = Big_int_Z.quomod_big_int p (Big_int_Z.big_int_of_int 2) in
  if Big_int_Z.eq_big_int r Big_int_Z.zero_big_int then f2p q else f2p1 q)
           (fun p3 ->
           (fun f2p1 f2p f1 p ->
  if Big_int_Z.le_big_int p Big_int_Z.unit_big_int then f1 () else
  let (q,r) = Big_int_Z.quomod_big_int p (Big_int_Z.big_int_of_int 2) in
  if Big_int_Z.eq_big_int r Big_int_Z.zero_big_int then f2p q else f2p1 q)
             (fun _ -> "badop")
             (fun p4 ->
             (fun f2p1 f2p f1 p ->
  if Big_int_Z.le_big_int p Big_int_Z.unit_big_int then f1 () else
  let (q,r) = Big_int_Z.quomod_big_int p (Big_int_Z.big_int_of_int 2) in
  if Big_int_Z.eq_big_int r Big_int_Z.zero_big_int then f2p q else f2p1 q)
               (fun _ -> "badop")
               (fun _ -> "badop")
               (fun _ ->
               (^) "str " ((guarded p g d stale).str (Obj.magic a)))
               p4)
             (fun _ -> show_resB (dunder_eq0 st a b0))
             p3)
           (fun p3 ->
           (fun f2p1 f2p f1 p ->
  if Big_int_Z.le_big_int p Big_int_Z.unit_big_int then f1 () else
  let (q,r) = Big_int_Z.quomod_big_int p (Big_int_Z.big_int_of_int 2) in
  if Big_int_Z.eq_big_int r Big_int_Z.zero_big_int then f2p q else f2p1 q)
             (fun _ -> "badop")
             (fun p4 ->
             (fun f2p1 f2p f1 p ->
  if Big_int_Z.le_big_int p Big_int_Z.unit_big_int then f1 () else
  let (q,r) = Big_int_Z.quomod_big_int p (Big_int_Z.big_int_of_int 2) in
  if Big_int_Z.eq_big_int r Big_int_Z.zero_big_int then f2p q else f2p1 q)
               (fun _ -> "badop")
               (fun _ -> "badop")
               (fun _ -> show_resB (dunder_gt0 st a b0))
               p4)
             (fun _ -> show_resZ (dunder_truediv0 st a b0))
             p3)
           (fun _ -> show_resZ (dunder_abs0 st a))
           p2)
         (fun _ -> show_resZ (dunder_neg0 st a))
         p1)
       (fun p1 ->
       (fun f2p1 f2p f1 p ->
  if Big_int_Z.le_big_int p Big_int_Z.unit_big_int then f1 () else
  let (q,r) = Big_int_Z.quomod_big_int p (Big_int_Z.big_int_of_int 2) in
  if Big_int_Z.eq_big_int r Big_int_Z.zero_big_int then f2p q else f2p1 q)
         (fun p2 ->
         (fun f2p1 f2p f1 p ->
  if Big_int_Z.le_big_int p Big_int_Z.unit_big_int then f1 () else
  let (q,r) = Big_int_Z.quomod_big_int p (Big_int_Z.big_int_of_int 2) in
  if Big_int_Z.eq_big_int r Big_int_Z.zero_big_int then f2p q else f2p1 q)
           (fun p3 ->
           (fun f2p1 f2p f1 p ->
  if Big_int_Z.le_big_int p Big_int_Z.unit_big_int then f1 () else
  let (q,r) = Big_int_Z.quomod_big_int p (Big_int_Z.big_int_of_int 2) in
  if Big_int_Z.eq_big_int r Big_int_Z.zero_big_int then f2p q else f2p1 q)
             (fun _ -> "badop")
             (fun p4 ->
             (fun f2p1 f2p f1 p ->
  if Big_int_Z.le_big_int p Big_int_Z.unit_big_int then f1 () else
  let (q,r) = Big_int_Z.quomod_big_int p (Big_int_Z.big_int_of_int 2) in
  if Big_int_Z.eq_big_int r Big_int_Z.zero_big_int then f2p q else f2p1 q)
               (fun _ -> "badop")
               (fun _ -> "badop")
               (fun _ -> show_resZ (dunder_hash st a))
               p4)
             (fun _ -> show_resB (dunder_ne0 st a b0))
             p3)
           (fun p3 ->
           (fun f2p1 f2p f1 p ->
  if Big_int_Z.le_big_int p Big_int_Z.unit_big_int then f1 () else
  let (q,r) = Big_int_Z.quomod_big_int p (Big_int_Z.big_int_of_int 2) in
  if Big_int_Z.eq_big_int r Big_int_Z.zero_big_int then f2p q else f2p1 q)
             (fun _ -> "badop")
             (fun p4 ->
             (fun f2p1 f2p f1 p ->
  if Big_int_Z.le_big_int p Big_int_Z.unit_big_int then f1 () else
  let (q,r) = Big_int_Z.quomod_big_int p (Big_int_Z.big_int_of_int 2) in
  if Big_int_Z.eq_big_int r Big_int_Z.zero_big_int then f2p q else f2p1 q)
               (fun _ -> "badop")
               (fun _ -> "badop")
               (fun _ -> show_resB (dunder_ge0 st a b0))
               p4)
             (fun _ -> show_resZ (mul1 st a0 b0 r))
             p3)
           (fun _ -> show_resB (dunder_bool0 st a))
           p2)
         (fun p2 ->
         (fun f2p1 f2p f1 p ->
  if Big_int_Z.le_big_int p Big_int_Z.unit_big_int then f1 () else
  let (q,r) = Big_int_Z.quomod_big_int p (Big_int_Z.big_int_of_int 2) in
  if Big_int_Z.eq_big_int r Big_int_Z.zero_big_int then f2p q else f2p1 q)
           (fun p3 ->
           (fun f2p1 f2p f1 p ->
  if Big_int_Z.le_big_int p Big_int_Z.unit_big_int then f1 () else
  let (q,r) = Big_int_Z.quomod_big_int p (Big_int_Z.big_int_of_int 2) in
  if Big_int_Z.eq_big_int r Big_int_Z.zero_big_int then f2p q else f2p1 q)
             (fun _ -> "badop")
             (fun p4 ->
             (fun f2p1 f2p f1 p ->
  if Big_int_Z.le_big_int p Big_int_Z.unit_big_int then f1 () else
  let (q,r) = Big_int_Z.quomod_big_int p (Big_int_Z.big_int_of_int 2) in
  if Big_int_Z.eq_big_int r Big_int_Z.zero_big_int then f2p q else f2p1 q)
               (fun _ -> "badop")
               (fun _ -> "badop")
               (fun _ -> show_resZ (min0 st rest))
               p4)
             (fun _ -> show_resZ (muldiv0 st a0 b0 c0 r))
             p3)
           (fun p3 ->
           (fun f2p1 f2p f1 p ->
  if Big_int_Z.le_big_int p Big_int_Z.unit_big_int then f1 () else
  let (q,r) = Big_int_Z.quomod_big_int p (Big_int_Z.big_int_of_int 2) in
  if Big_int_Z.eq_big_int r Big_int_Z.zero_big_int then f2p q else f2p1 q)
             (fun _ -> "badop")
             (fun p4 ->
             (fun f2p1 f2p f1 p ->
  if Big_int_Z.le_big_int p Big_int_Z.unit_big_int then f1 () else
  let (q,r) = Big_int_Z.quomod_big_int p (Big_int_Z.big_int_of_int 2) in
  if Big_int_Z.eq_big_int r Big_int_Z.zero_big_int then f2p q else f2p1 q)
               (fun _ -> "badop")
               (fun _ -> "badop")
               (fun _ -> show_resB (dunder_le0 st a b0))
               p4)
             (fun _ -> show_resZ (dunder_floordiv0 st a b0))
             p3)
           (fun _ -> show_resZ (dunder_pos0 st a))
           p2)
         (fun _ -> show_resZ (dunder_sub0 st a b0))
         p1)
       (fun _ -> show_resZ (dunder_add0 st a b0))
       p0)
     (fun _ -> "badop")
     op)

(** val mkq : Big_int_Z.big_int -> Big_int_Z.big_int -> q **)

let mkq n0 d =
  qred { qnum = n0; qden = (Z.to_pos d) }

(** val show_q : q -> string **)

let show_q q0 =
  (rational Big_int_Z.zero_big_int).raw_repr (Obj.magic q0)

(** val show_resQ : q res -> string **)

let show_resQ = function
| Ok q0 -> (^) "ok " (show_q q0)
| Raise e -> (^) "exn " (exn_name e)

(** val showb : bool -> string **)

let showb = function
| true -> "bool 1"
| false -> "bool 0"

(** val run_rational :
    Big_int_Z.big_int -> Big_int_Z.big_int -> Big_int_Z.big_int ->
    Big_int_Z.big_int -> Big_int_Z.big_int -> Big_int_Z.big_int ->
    Big_int_Z.big_int -> Big_int_Z.big_int -> Big_int_Z.big_int -> string **)

let run_rational dp op rn an ad bn bd cn cd =
  let r = rational dp in
  let a = mkq an ad in
  let b = mkq bn bd in
  let c = mkq cn cd in
  let r0 = mk_rnd rn in
  ((fun fO fp fn z -> let s = Big_int_Z.sign_big_int z in
  if s = 0 then fO () else if s > 0 then fp z
  else fn (Big_int_Z.minus_big_int z))
     (fun _ -> "badop")
     (fun p ->
     (fun f2p1 f2p f1 p ->
  if Big_int_Z.le_big_int p Big_int_Z.unit_big_int then f1 () else
  let (q,r) = Big_int_Z.quomod_big_int p (Big_int_Z.big_int_of_int 2) in
  if Big_int_Z.eq_big_int r Big_int_Z.zero_big_int then f2p q else f2p1 q)
       (fun p0 ->
       (fun f2p1 f2p f1 p ->
  if Big_int_Z.le_big_int p Big_int_Z.unit_big_int then f1 () else
  let (q,r) = Big_int_Z.quomod_big_int p (Big_int_Z.big_int_of_int 2) in
  if Big_int_Z.eq_big_int r Big_int_Z.zero_big_int then f2p q else f2p1 q)
         (fun p1 ->
         (fun f2p1 f2p f1 p ->
  if Big_int_Z.le_big_int p Big_int_Z.unit_big_int then f1 () else
  let (q,r) = Big_int_Z.quomod_big_int p (Big_int_Z.big_int_of_int 2) in
  if Big_int_Z.eq_big_int r Big_int_Z.zero_big_int then f2p q else f2p1 q)
           (fun p2 ->
           (fun f2p1 f2p f1 p ->
  if Big_int_Z.le_big_int p Big_int_Z.unit_big_int then f1 () else
  let (q,r) = Big_int_Z.quomod_big_int p (Big_int_Z.big_int_of_int 2) in
  if Big_int_Z.eq_big_int r Big_int_Z.zero_big_int then f2p q else f2p1 q)
             (fun _ -> "badop")
             (fun _ -> "badop")
             (fun _ -> showb (r.ltv (Obj.magic a) (Obj.magic b)))
             p2)
           (fun p2 ->
           (fun f2p1 f2p f1 p ->
  if Big_int_Z.le_big_int p Big_int_Z.unit_big_int then f1 () else
  let (q,r) = Big_int_Z.quomod_big_int p (Big_int_Z.big_int_of_int 2) in
  if Big_int_Z.eq_big_int r Big_int_Z.zero_big_int then f2p q else f2p1 q)
             (fun _ -> "badop")
             (fun _ -> "badop")
             (fun _ -> show_resQ (Obj.magic r.kdiv a b r0))
             p2)
           (fun _ -> (^) "ok " (show_q (Obj.magic r.mulv a b)))
           p1)
         (fun p1 ->
         (fun f2p1 f2p f1 p ->
  if Big_int_Z.le_big_int p Big_int_Z.unit_big_int then f1 () else
  let (q,r) = Big_int_Z.quomod_big_int p (Big_int_Z.big_int_of_int 2) in
  if Big_int_Z.eq_big_int r Big_int_Z.zero_big_int then f2p q else f2p1 q)
           (fun p2 ->
           (fun f2p1 f2p f1 p ->
  if Big_int_Z.le_big_int p Big_int_Z.unit_big_int then f1 () else
  let (q,r) = Big_int_Z.quomod_big_int p (Big_int_Z.big_int_of_int 2) in
  if Big_int_Z.eq_big_int r Big_int_Z.zero_big_int then f2p q else f2p1 q)
             (fun _ -> "badop")
             (fun p3 ->
             (fun f2p1 f2p f1 p ->
  if Big_int_Z.le_big_int p Big_int_Z.unit_big_int then f1 () else
  let (q,r) = Big_int_Z.quomod_big_int p (Big_int_Z.big_int_of_int 2) in
  if Big_int_Z.eq_big_int r Big_int_Z.zero_big_int then f2p q else f2p1 q)
               (fun _ -> "badop")
               (fun _ -> "badop")
               (fun _ -> (^) "str " (r.str (Obj.magic a)))
               p3)
             (fun _ -> showb (r.eqv (Obj.magic a) (Obj.magic b)))
             p2)
           (fun p2 ->
           (fun f2p1 f2p f1 p ->
  if Big_int_Z.le_big_int p Big_int_Z.unit_big_int then f1 () else
  let (q,r) = Big_int_Z.quomod_big_int p (Big_int_Z.big_int_of_int 2) in
  if Big_int_Z.eq_big_int r Big_int_Z.zero_big_int then f2p q else f2p1 q)
             (fun _ -> "badop")
             (fun p3 ->
             (fun f2p1 f2p f1 p ->
  if Big_int_Z.le_big_int p Big_int_Z.unit_big_int then f1 () else
  let (q,r) = Big_int_Z.quomod_big_int p (Big_int_Z.big_int_of_int 2) in
  if Big_int_Z.eq_big_int r Big_int_Z.zero_big_int then f2p q else f2p1 q)
               (fun _ -> "badop")
               (fun _ -> "badop")
               (fun _ -> showb (r.gtv (Obj.magic a) (Obj.magic b)))
               p3)
             (fun _ -> show_resQ (Obj.magic r.divv a b))
             p2)
           (fun _ -> "badop")
           p1)
         (fun _ -> "badop")
         p0)
       (fun p0 ->
       (fun f2p1 f2p f1 p ->
  if Big_int_Z.le_big_int p Big_int_Z.unit_big_int then f1 () else
  let (q,r) = Big_int_Z.quomod_big_int p (Big_int_Z.big_int_of_int 2) in
  if Big_int_Z.eq_big_int r Big_int_Z.zero_big_int then f2p q else f2p1 q)
         (fun p1 ->
         (fun f2p1 f2p f1 p ->
  if Big_int_Z.le_big_int p Big_int_Z.unit_big_int then f1 () else
  let (q,r) = Big_int_Z.quomod_big_int p (Big_int_Z.big_int_of_int 2) in
  if Big_int_Z.eq_big_int r Big_int_Z.zero_big_int then f2p q else f2p1 q)
           (fun p2 ->
           (fun f2p1 f2p f1 p ->
  if Big_int_Z.le_big_int p Big_int_Z.unit_big_int then f1 () else
  let (q,r) = Big_int_Z.quomod_big_int p (Big_int_Z.big_int_of_int 2) in
  if Big_int_Z.eq_big_int r Big_int_Z.zero_big_int then f2p q else f2p1 q)
             (fun _ -> "badop")
             (fun _ -> "badop")
             (fun _ -> showb (nev r (Obj.magic a) (Obj.magic b)))
             p2)
           (fun p2 ->
           (fun f2p1 f2p f1 p ->
  if Big_int_Z.le_big_int p Big_int_Z.unit_big_int then f1 () else
  let (q,r) = Big_int_Z.quomod_big_int p (Big_int_Z.big_int_of_int 2) in
  if Big_int_Z.eq_big_int r Big_int_Z.zero_big_int then f2p q else f2p1 q)
             (fun _ -> "badop")
             (fun p3 ->
             (fun f2p1 f2p f1 p ->
  if Big_int_Z.le_big_int p Big_int_Z.unit_big_int then f1 () else
  let (q,r) = Big_int_Z.quomod_big_int p (Big_int_Z.big_int_of_int 2) in
  if Big_int_Z.eq_big_int r Big_int_Z.zero_big_int then f2p q else f2p1 q)
               (fun _ -> "badop")
               (fun _ -> "badop")
               (fun _ -> showb (r.gev (Obj.magic a) (Obj.magic b)))
               p3)
             (fun _ -> (^) "ok " (show_q (Obj.magic r.kmul a b r0)))
             p2)
           (fun _ -> showb (r.truth (Obj.magic a)))
           p1)
         (fun p1 ->
         (fun f2p1 f2p f1 p ->
  if Big_int_Z.le_big_int p Big_int_Z.unit_big_int then f1 () else
  let (q,r) = Big_int_Z.quomod_big_int p (Big_int_Z.big_int_of_int 2) in
  if Big_int_Z.eq_big_int r Big_int_Z.zero_big_int then f2p q else f2p1 q)
           (fun p2 ->
           (fun f2p1 f2p f1 p ->
  if Big_int_Z.le_big_int p Big_int_Z.unit_big_int then f1 () else
  let (q,r) = Big_int_Z.quomod_big_int p (Big_int_Z.big_int_of_int 2) in
  if Big_int_Z.eq_big_int r Big_int_Z.zero_big_int then f2p q else f2p1 q)
             (fun _ -> "badop")
             (fun _ -> "badop")
             (fun _ -> show_resQ (Obj.magic r.kmuldiv a b c r0))
             p2)
           (fun p2 ->
           (fun f2p1 f2p f1 p ->
  if Big_int_Z.le_big_int p Big_int_Z.unit_big_int then f1 () else
  let (q,r) = Big_int_Z.quomod_big_int p (Big_int_Z.big_int_of_int 2) in
  if Big_int_Z.eq_big_int r Big_int_Z.zero_big_int then f2p q else f2p1 q)
             (fun _ -> "badop")
             (fun p3 ->
             (fun f2p1 f2p f1 p ->
  if Big_int_Z.le_big_int p Big_int_Z.unit_big_int then f1 () else
  let (q,r) = Big_int_Z.quomod_big_int p (Big_int_Z.big_int_of_int 2) in
  if Big_int_Z.eq_big_int r Big_int_Z.zero_big_int then f2p q else f2p1 q)
               (fun _ -> "badop")
               (fun _ -> "badop")
               (fun _ -> showb (r.lev (Obj.magic a) (Obj.magic b)))
               p3)
             (fun _ -> show_resQ (Obj.magic r.floordivv a b))
             p2)
           (fun _ -> "badop")
           p1)
         (fun _ -> (^) "ok " (show_q (Obj.magic r.sub0 a b)))
         p0)
       (fun _ -> (^) "ok " (show_q (Obj.magic r.add0 a b)))
       p)
     (fun _ -> "badop")
     op)

(** val run_values : Big_int_Z.big_int list -> string **)

let run_values = function
| [] -> "badcase"
| z0 :: l0 ->
  ((fun fO fp fn z -> let s = Big_int_Z.sign_big_int z in
  if s = 0 then fO () else if s > 0 then fp z
  else fn (Big_int_Z.minus_big_int z))
     (fun _ ->
     match l0 with
     | [] -> "badcase"
     | p :: l1 ->
       (match l1 with
        | [] -> "badcase"
        | d :: l2 ->
          (match l2 with
           | [] -> "badcase"
           | op :: l3 ->
             (match l3 with
              | [] -> "badcase"
              | rn :: l4 ->
                (match l4 with
                 | [] -> "badcase"
                 | ka :: l5 ->
                   (match l5 with
                    | [] -> "badcase"
                    | a :: l6 ->
                      (match l6 with
                       | [] -> "badcase"
                       | kb :: l7 ->
                         (match l7 with
                          | [] -> "badcase"
                          | b :: l8 ->
                            (match l8 with
                             | [] -> "badcase"
                             | kc :: l9 ->
                               (match l9 with
                                | [] -> "badcase"
                                | c :: rest ->
                                  run_fixed p d op rn ka a kb b kc c rest))))))))))
     (fun p0 ->
     (fun f2p1 f2p f1 p ->
  if Big_int_Z.le_big_int p Big_int_Z.unit_big_int then f1 () else
  let (q,r) = Big_int_Z.quomod_big_int p (Big_int_Z.big_int_of_int 2) in
  if Big_int_Z.eq_big_int r Big_int_Z.zero_big_int then f2p q else f2p1 q)
       (fun _ -> "badcase")
       (fun p ->
       (fun f2p1 f2p f1 p ->
  if Big_int_Z.le_big_int p Big_int_Z.unit_big_int then f1 () else
  let (q,r) = Big_int_Z.quomod_big_int p (Big_int_Z.big_int_of_int 2) in
  if Big_int_Z.eq_big_int r Big_int_Z.zero_big_int then f2p q else f2p1 q)
         (fun _ -> "badcase")
         (fun _ -> "badcase")
         (fun _ ->
         match l0 with
         | [] -> "badcase"
         | dp :: l1 ->
           (match l1 with
            | [] -> "badcase"
            | op :: l2 ->
              (match l2 with
               | [] -> "badcase"
               | rn :: l3 ->
                 (match l3 with
                  | [] -> "badcase"
                  | an :: l4 ->
                    (match l4 with
                     | [] -> "badcase"
                     | ad :: l5 ->
                       (match l5 with
                        | [] -> "badcase"
                        | bn :: l6 ->
                          (match l6 with
                           | [] -> "badcase"
                           | bd :: l7 ->
                             (match l7 with
                              | [] -> "badcase"
                              | cn :: l8 ->
                                (match l8 with
                                 | [] -> "badcase"
                                 | cd :: _ ->
                                   run_rational dp op rn an ad bn bd cn cd)))))))))
         p)
       (fun _ ->
       match l0 with
       | [] -> "badcase"
       | p :: l1 ->
         (match l1 with
          | [] -> "badcase"
          | g :: l2 ->
            (match l2 with
             | [] -> "badcase"
             | d :: l3 ->
               (match l3 with
                | [] -> "badcase"
                | stale :: l4 ->
                  (match l4 with
                   | [] -> "badcase"
                   | op :: l5 ->
                     (match l5 with
                      | [] -> "badcase"
                      | rn :: l6 ->
                        (match l6 with
                         | [] -> "badcase"
                         | ka :: l7 ->
                           (match l7 with
                            | [] -> "badcase"
                            | a :: l8 ->
                              (match l8 with
                               | [] -> "badcase"
                               | kb :: l9 ->
                                 (match l9 with
                                  | [] -> "badcase"
                                  | b :: l10 ->
                                    (match l10 with
                                     | [] -> "badcase"
                                     | kc :: l11 ->
                                       (match l11 with
                                        | [] -> "badcase"
                                        | c :: rest ->
                                          run_guarded p g d stale op rn ka a
                                            kb b kc c rest))))))))))))
       p0)
     (fun _ -> "badcase")
     z0)

(** val run : tok list -> string **)

let run = function
| [] -> "badcommand"
| t0 :: rest ->
  (match t0 with
   | TI _ -> "badcommand"
   | TS s ->
     ((* If this appears, you're using String internals. Please don't *)
 (fun f0 f1 s ->
    let l = String.length s in
    if l = 0 then f0 () else f1 (String.get s 0) (String.sub s 1 (l-1)))

        (fun _ -> "badcommand")
        (fun a s0 ->
        (* If this appears, you're using Ascii internals. Please don't *)
 (fun f c ->
  let n = Char.code c in
  let h i = (n land (1 lsl i)) <> 0 in
  f (h 0) (h 1) (h 2) (h 3) (h 4) (h 5) (h 6) (h 7))
          (fun b b0 b1 b2 b3 b4 b5 b6 ->
          if b
          then "badcommand"
          else if b0
               then if b1
                    then if b2
                         then "badcommand"
                         else if b3
                              then if b4
                                   then if b5
                                        then if b6
                                             then "badcommand"
                                             else ((* If this appears, you're using String internals. Please don't *)
 (fun f0 f1 s ->
    let l = String.length s in
    if l = 0 then f0 () else f1 (String.get s 0) (String.sub s 1 (l-1)))

                                                     (fun _ ->
                                                     "badcommand")
                                                     (fun a0 s1 ->
                                                     (* If this appears, you're using Ascii internals. Please don't *)
 (fun f c ->
  let n = Char.code c in
  let h i = (n land (1 lsl i)) <> 0 in
  f (h 0) (h 1) (h 2) (h 3) (h 4) (h 5) (h 6) (h 7))
                                                       (fun b7 b8 b9 b10 b11 b12 b13 b14 ->
                                                       if b7
                                                       then if b8
                                                            then "badcommand"
                                                            else if b9
                                                                 then 
                                                                   "badcommand"
                                                                 else 
                                                                   if b10
                                                                   then 
                                                                    "badcommand"
                                                                   else 
                                                                    if b11
                                                                    then 
                                                                    "badcommand"
                                                                    else 
                                                                    if b12
                                                                    then 
                                                                    if b13
                                                                    then 
                                                                    if b14
                                                                    then 
                                                                    "badcommand"
                                                                    else 
                                                                    ((* If this appears, you're using String internals. Please don't *)
 (fun f0 f1 s ->
    let l = String.length s in
    if l = 0 then f0 () else f1 (String.get s 0) (String.sub s 1 (l-1)))

                                                                    (fun _ ->
                                                                    "badcommand")
                                                                    (fun a1 s2 ->
                                                                    (* If this appears, you're using Ascii internals. Please don't *)
 (fun f c ->
  let n = Char.code c in
  let h i = (n land (1 lsl i)) <> 0 in
  f (h 0) (h 1) (h 2) (h 3) (h 4) (h 5) (h 6) (h 7))
                                                                    (fun b15 b16 b17 b18 b19 b20 b21 b22 ->
                                                                    if b15
                                                                    then 
                                                                    "badcommand"
                                                                    else 
                                                                    if b16
                                                                    then 
                                                                    "badcommand"
                                                                    else 
                                                                    if b17
                                                                    then 
                                                                    if b18
                                                                    then 
                                                                    if b19
                                                                    then 
                                                                    "badcommand"
                                                                    else 
                                                                    if b20
                                                                    then 
                                                                    if b21
                                                                    then 
                                                                    if b22
                                                                    then 
                                                                    "badcommand"
                                                                    else 
                                                                    ((* If this appears, you're using String internals. Please don't *)
 (fun f0 f1 s ->
    let l = String.length s in
    if l = 0 then f0 () else f1 (String.get s 0) (String.sub s 1 (l-1)))

                                                                    (fun _ ->
                                                                    "badcommand")
                                                                    (fun a2 s3 ->
                                                                    (* If this appears, you're using Ascii internals. Please don't *)
 (fun f c ->
  let n = Char.code c in
  let h i = (n land (1 lsl i)) <> 0 in
  f (h 0) (h 1) (h 2) (h 3) (h 4) (h 5) (h 6) (h 7))
                                                                    (fun b23 b24 b25 b26 b27 b28 b29 b30 ->
                                                                    if b23
                                                                    then 
                                                                    if b24
                                                                    then 
                                                                    "badcommand"
                                                                    else 
                                                                    if b25
                                                                    then 
                                                                    if b26
                                                                    then 
                                                                    "badcommand"
                                                                    else 
                                                                    if b27
                                                                    then 
                                                                    if b28
                                                                    then 
                                                                    if b29
                                                                    then 
                                                                    if b30
                                                                    then 
                                                                    "badcommand"
                                                                    else 
                                                                    ((* If this appears, you're using String internals. Please don't *)
 (fun f0 f1 s ->
    let l = String.length s in
    if l = 0 then f0 () else f1 (String.get s 0) (String.sub s 1 (l-1)))

                                                                    (fun _ ->
                                                                    "badcommand")
                                                                    (fun a3 s4 ->
                                                                    (* If this appears, you're using Ascii internals. Please don't *)
 (fun f c ->
  let n = Char.code c in
  let h i = (n land (1 lsl i)) <> 0 in
  f (h 0) (h 1) (h 2) (h 3) (h 4) (h 5) (h 6) (h 7))
                                                                    (fun b31 b32 b33 b34 b35 b36 b37 b38 ->
                                                                    if b31
                                                                    then 
                                                                    if b32
                                                                    then 
                                                                    "badcommand"
                                                                    else 
                                                                    if b33
                                                                    then 
                                                                    if b34
                                                                    then 
                                                                    "badcommand"
                                                                    else 
                                                                    if b35
                                                                    then 
                                                                    "badcommand"
                                                                    else 
                                                                    if b36
                                                                    then 
                                                                    if b37
                                                                    then 
                                                                    if b38
                                                                    then 
                                                                    "badcommand"
                                                                    else 
                                                                    ((* If this appears, you're using String internals. Please don't *)
 (fun f0 f1 s ->
    let l = String.length s in
    if l = 0 then f0 () else f1 (String.get s 0) (String.sub s 1 (l-1)))

                                                                    (fun _ ->
                                                                    "badcommand")
                                                                    (fun a4 s5 ->
                                                                    (* If this appears, you're using Ascii internals. Please don't *)
 (fun f c ->
  let n = Char.code c in
  let h i = (n land (1 lsl i)) <> 0 in
  f (h 0) (h 1) (h 2) (h 3) (h 4) (h 5) (h 6) (h 7))
                                                                    (fun b39 b40 b41 b42 b43 b44 b45 b46 ->
                                                                    if b39
                                                                    then 
                                                                    if b40
                                                                    then 
                                                                    if b41
                                                                    then 
                                                                    "badcommand"
                                                                    else 
                                                                    if b42
                                                                    then 
                                                                    "badcommand"
                                                                    else 
                                                                    if b43
                                                                    then 
                                                                    if b44
                                                                    then 
                                                                    if b45
                                                                    then 
                                                                    if b46
                                                                    then 
                                                                    "badcommand"
                                                                    else 
                                                                    ((* If this appears, you're using String internals. Please don't *)
 (fun f0 f1 s ->
    let l = String.length s in
    if l = 0 then f0 () else f1 (String.get s 0) (String.sub s 1 (l-1)))

                                                                    (fun _ ->
                                                                    run_values
                                                                    (toks_ints
                                                                    rest))
                                                                    (fun _ _ ->
                                                                    "badcommand")
                                                                    s5)
                                                                    else 
                                                                    "badcommand"
                                                                    else 
                                                                    "badcommand"
                                                                    else 
                                                                    "badcommand"
                                                                    else 
                                                                    "badcommand"
                                                                    else 
                                                                    "badcommand")
                                                                    a4)
                                                                    s4)
                                                                    else 
                                                                    "badcommand"
                                                                    else 
                                                                    "badcommand"
                                                                    else 
                                                                    "badcommand"
                                                                    else 
                                                                    "badcommand")
                                                                    a3)
                                                                    s3)
                                                                    else 
                                                                    "badcommand"
                                                                    else 
                                                                    "badcommand"
                                                                    else 
                                                                    "badcommand"
                                                                    else 
                                                                    "badcommand"
                                                                    else 
                                                                    "badcommand")
                                                                    a2)
                                                                    s2)
                                                                    else 
                                                                    "badcommand"
                                                                    else 
                                                                    "badcommand"
                                                                    else 
                                                                    "badcommand"
                                                                    else 
                                                                    "badcommand")
                                                                    a1)
                                                                    s1)
                                                                    else 
                                                                    "badcommand"
                                                                    else 
                                                                    "badcommand"
                                                       else "badcommand")
                                                       a0)
                                                     s0)
                                        else "badcommand"
                                   else "badcommand"
                              else "badcommand"
                    else "badcommand"
               else "badcommand")
          a)
        s))
